"""Hole tokens: formatted symbolic integers inside real text.

`format(SymNum, spec)` returns an opaque token `⟦k|spec⟧`.  Text produced by the real writers is real
except for these tokens.  `HolePattern` lets a real compiled regex (of the code under test or of an
oracle grammar) match such text: every hole is replaced by a digit placeholder of the width the value
has on the current path (the width is decided by the solver, forking when several are possible), the
real regex runs on the placeholder text, and groups are mapped back so that a group covering exactly
one hole is returned as the hole token; `sym_int` turns the token back into the symbolic integer.

Assumptions recorded by users of this module: CPython renders an int in decimal with the zero padding
the format spec asks for; the regexes treat all ten digits alike (checked by `digits_uniform`).
"""
from __future__ import annotations

import re
try:
  import re._parser as sre_parse
  import re._constants as sre_c
except ImportError:  # pragma: no cover
  import sre_parse
  import sre_constants as sre_c

import z3

from . import symrun
from .symrun import HarnessError, SymNum

HOLE_RE = re.compile(r"⟦(\d+)\|([^⟧]*)⟧")


def has_hole(s) -> bool:
  return isinstance(s, str) and "⟦" in s


def _spec_width(spec):
  m = re.fullmatch(r"(0?)(\d*)d?", spec)
  if m is None:
    raise HarnessError(f"unsupported format spec for a symbolic int: {spec!r}")
  return int(m.group(2) or 0), m.group(1) == "0" or not m.group(2)


def hole_width(ex, sym: SymNum, spec: str) -> int:
  """number of characters the rendering of `sym` under `spec` has on this path (forks if undecided)"""
  if sym.kind != 'i':
    raise HarnessError("only integers can be rendered symbolically")
  w, zero = _spec_width(spec)
  if not zero and w > 1:
    raise HarnessError("space padded symbolic int")
  v = sym.z
  if ex.decide(v < 0):
    raise HarnessError("negative symbolic int rendered")
  digits = max(w, 1)
  while digits < 12:
    if ex.decide(v < 10 ** digits):
      return digits
    digits += 1
  raise HarnessError("symbolic int wider than 12 digits")


def digits_uniform(pattern: str) -> bool:
  """True when the regex cannot tell one decimal digit from another"""
  DIG = set(range(ord('0'), ord('9') + 1))

  def in_set(items):
    neg = False
    s = set()
    for op, av in items:
      if op is sre_c.NEGATE:
        neg = True
      elif op is sre_c.LITERAL:
        if av in DIG:
          s.add(av)
      elif op is sre_c.RANGE:
        s |= DIG & set(range(av[0], av[1] + 1))
      elif op is sre_c.CATEGORY:
        if av in (sre_c.CATEGORY_DIGIT, sre_c.CATEGORY_WORD, sre_c.CATEGORY_NOT_SPACE):
          s |= DIG
        elif av in (sre_c.CATEGORY_NOT_DIGIT, sre_c.CATEGORY_NOT_WORD, sre_c.CATEGORY_SPACE):
          pass
        else:
          return False
      else:
        return False
    return len(s) in (0, 10)

  def walk(seq):
    for op, av in seq:
      if op is sre_c.LITERAL or op is sre_c.NOT_LITERAL:
        if av in DIG:
          return False
      elif op is sre_c.IN:
        if not in_set(av):
          return False
      elif op is sre_c.BRANCH:
        if not all(walk(b) for b in av[1]):
          return False
      elif op is sre_c.SUBPATTERN:
        if not walk(av[3]):
          return False
      elif op in (sre_c.MAX_REPEAT, sre_c.MIN_REPEAT):
        if not walk(av[2]):
          return False
      elif op in (sre_c.ASSERT, sre_c.ASSERT_NOT):
        if not walk(av[1]):
          return False
      elif op in (sre_c.ANY, sre_c.AT, sre_c.CATEGORY):
        pass
      elif op is sre_c.GROUPREF:
        pass
      else:
        return False
    return True

  return walk(sre_parse.parse(pattern))


class HoleMatch:
  def __init__(self, m, back, text):
    self._m = m
    self._back = back     # placeholder index -> (orig_start, orig_end, is_hole_start, is_hole_end)
    self._text = text
    self.re = m.re
    self.string = text

  def _map(self, a, b):
    if a == -1:
      return None
    # map placeholder span [a,b) back to original text
    segs = self._back
    out = []
    for (pa, pb, oa, ob, hole) in segs:
      if pb <= a or pa >= b:
        continue
      if hole:
        if pa < a or pb > b:
          raise HarnessError("regex group cuts through a formatted symbolic number")
        out.append(self._text[oa:ob])
      else:
        lo, hi = max(a, pa), min(b, pb)
        out.append(self._text[oa + (lo - pa): oa + (hi - pa)])
    return "".join(out)

  def group(self, *gs):
    if not gs:
      gs = (0,)
    r = tuple(self._map(*self._m.span(g)) for g in gs)
    return r[0] if len(r) == 1 else r

  def groups(self, default=None):
    return tuple(self.group(i) if self._m.span(i)[0] != -1 else default for i in range(1, self._m.re.groups + 1))

  def groupdict(self, default=None):
    return {k: (self.group(k) if self._m.span(k)[0] != -1 else default) for k in self._m.re.groupindex}

  def __getitem__(self, g):
    return self.group(g)

  def _pos(self, p, end):
    for (pa, pb, oa, ob, hole) in self._back:
      if pa <= p <= pb:
        if hole:
          if p == pa:
            return oa
          if p == pb:
            return ob
          raise HarnessError("match boundary inside a formatted symbolic number")
        return oa + (p - pa)
    return len(self._text) if end else 0

  def start(self, g=0):
    return self._pos(self._m.start(g), False)

  def end(self, g=0):
    return self._pos(self._m.end(g), True)

  def span(self, g=0):
    return (self.start(g), self.end(g))


class HolePattern:
  """wraps a compiled regex so that it can match text that contains hole tokens"""

  def __init__(self, compiled):
    self._p = compiled
    self.pattern = compiled.pattern
    self.groups = compiled.groups
    self.groupindex = compiled.groupindex
    self._uniform = None

  def _expand(self, text):
    ex = symrun.cur()
    if self._uniform is None:
      self._uniform = digits_uniform(self.pattern)
    if not self._uniform:
      raise HarnessError(f"regex distinguishes digits; cannot match symbolic numbers: {self.pattern!r}")
    segs = []
    out = []
    pos = 0
    ppos = 0
    for m in HOLE_RE.finditer(text):
      if m.start() > pos:
        lit = text[pos:m.start()]
        segs.append((ppos, ppos + len(lit), pos, m.start(), False))
        out.append(lit)
        ppos += len(lit)
      sym = ex.holes[m.group(0)]
      w = hole_width(ex, sym, m.group(2))
      segs.append((ppos, ppos + w, m.start(), m.end(), True))
      out.append("7" * w)
      ppos += w
      pos = m.end()
    if pos < len(text):
      lit = text[pos:]
      segs.append((ppos, ppos + len(lit), pos, len(text), False))
      out.append(lit)
    return "".join(out), segs

  def _do(self, meth, text, *a):
    if not has_hole(text):
      return getattr(self._p, meth)(text, *a)
    if a:
      raise HarnessError("pos/endpos with symbolic text")
    ptext, segs = self._expand(text)
    m = getattr(self._p, meth)(ptext)
    return None if m is None else HoleMatch(m, segs, text)

  def match(self, text, *a): return self._do("match", text, *a)
  def fullmatch(self, text, *a): return self._do("fullmatch", text, *a)
  def search(self, text, *a): return self._do("search", text, *a)

  def sub(self, repl, text, count=0):
    if has_hole(text):
      raise HarnessError("re.sub on symbolic text")
    return self._p.sub(repl, text, count)

  def split(self, text, maxsplit=0):
    if has_hole(text):
      raise HarnessError("re.split on symbolic text")
    return self._p.split(text, maxsplit)

  def findall(self, text):
    if has_hole(text):
      raise HarnessError("re.findall on symbolic text")
    return self._p.findall(text)

  def finditer(self, text):
    if has_hole(text):
      raise HarnessError("re.finditer on symbolic text")
    return self._p.finditer(text)


class HoleRe:
  """stands in for the `re` module inside a module under test"""

  def __init__(self):
    self._cache = {}

  def compile(self, pattern, flags=0):
    key = (pattern, flags)
    if key not in self._cache:
      self._cache[key] = HolePattern(re.compile(pattern, flags))
    return self._cache[key]

  def match(self, pattern, text, flags=0): return self.compile(pattern, flags).match(text)
  def fullmatch(self, pattern, text, flags=0): return self.compile(pattern, flags).fullmatch(text)
  def search(self, pattern, text, flags=0): return self.compile(pattern, flags).search(text)
  def sub(self, pattern, repl, text, count=0, flags=0): return self.compile(pattern, flags).sub(repl, text, count)

  def __getattr__(self, name):
    return getattr(re, name)


def hole_int(x, *a):
  """`int` shadow: symbolic numbers truncate; a string that is exactly one hole token is the symbol"""
  if isinstance(x, SymNum):
    return x.__trunc__()
  if has_hole(x):
    m = HOLE_RE.fullmatch(x.strip())
    if m is None:
      raise HarnessError(f"int() of text mixing digits and a symbolic number: {x!r}")
    s = symrun.cur().holes[m.group(0)]
    return s
  return int(x, *a)


def hole_value(ex, s):
  """oracle side: z3 Int term of a decimal field which is either digits or exactly one hole token"""
  if has_hole(s):
    m = HOLE_RE.fullmatch(s)
    if m is None:
      raise HarnessError(f"numeric field mixing digits and a symbolic number: {s!r}")
    return ex.holes[m.group(0)].z
  return z3.IntVal(int(s))
