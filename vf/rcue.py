"""R-CUE: strict, hole-aware reference grammars for SubRip and WebVTT output, and a tag scoper.

Parsers return cue records whose time fields are z3 Int terms (milliseconds), so that assertions about them are
solver queries.  They raise `Ungrammatical(reason)` when the text is outside the grammar."""
from __future__ import annotations

import re

import z3

from . import holes
from .holes import HolePattern, hole_value, has_hole


class Ungrammatical(Exception):
  pass


_SRT_TIMING = HolePattern(re.compile(r"^(\d{2,}):(\d{2}):(\d{2}),(\d{3}) --> (\d{2,}):(\d{2}):(\d{2}),(\d{3})$"))
_VTT_TIMING = HolePattern(re.compile(r"^(?:(\d{2,}):)?(\d{2}):(\d{2})\.(\d{3}) --> (?:(\d{2,}):)?(\d{2}):(\d{2})\.(\d{3})((?: [a-z]+:[^ \n]+)*)$"))
_NUMBER = HolePattern(re.compile(r"^\d+$"))


def _ms(ex, h, m, s, ms):
  hz = hole_value(ex, h) if h is not None else z3.IntVal(0)
  mz, sz, msz = hole_value(ex, m), hole_value(ex, s), hole_value(ex, ms)
  rng = z3.And(mz >= 0, mz <= 59, sz >= 0, sz <= 59, msz >= 0, msz <= 999, hz >= 0)
  return ((hz * 60 + mz) * 60 + sz) * 1000 + msz, rng


class Cue:
  def __init__(self):
    self.number = None
    self.begin = None     # z3 Int (ms)
    self.end = None
    self.fields_ok = None  # z3 Bool: minute/second/ms fields in range
    self.lines = []
    self.settings = {}

  @property
  def payload(self):
    return "\n".join(self.lines)


def parse_srt(ex, text):
  """SubRip: (number NL timing NL payload-line+ NL)  separated by one blank line"""
  cues = []
  if text == "":
    return cues
  lines = text.split("\n")
  i = 0
  n = len(lines)
  while i < n:
    if lines[i] == "" and i == n - 1:
      break
    cue = Cue()
    if _NUMBER.match(lines[i]) is None:
      raise Ungrammatical("cue number expected, got %r" % lines[i])
    cue.number = int(lines[i])
    i += 1
    if i >= n:
      raise Ungrammatical("timing line missing")
    m = _SRT_TIMING.match(lines[i])
    if m is None:
      raise Ungrammatical("bad timing line %r" % lines[i])
    g = m.groups()
    cue.begin, ok1 = _ms(ex, *g[0:4])
    cue.end, ok2 = _ms(ex, *g[4:8])
    cue.fields_ok = z3.And(ok1, ok2)
    i += 1
    while i < n and lines[i] != "":
      if "-->" in lines[i]:
        raise Ungrammatical("'-->' inside a payload")
      cue.lines.append(lines[i])
      i += 1
    if not cue.lines:
      raise Ungrammatical("cue without payload")
    cues.append(cue)
    # exactly one blank line separates cues
    if i < n:
      i += 1
      if i < n and lines[i] == "" and i != n - 1:
        raise Ungrammatical("more than one blank line between cues")
  return cues


def parse_vtt(ex, text):
  """WebVTT: header, optional STYLE block(s) before any cue, cues with optional identifier and settings"""
  if not text.startswith("WEBVTT\n\n"):
    raise Ungrammatical("missing WEBVTT header line followed by a blank line")
  rest = text[len("WEBVTT\n\n"):]
  blocks = rest.split("\n\n") if rest else []
  cues = []
  styles = []
  seen_cue = False
  k = 0
  while k < len(blocks):
    b = blocks[k]
    k += 1
    if b == "":
      continue
    lines = b.split("\n")
    if lines[-1] == "":
      lines = lines[:-1]
    if lines[0] == "STYLE":
      if seen_cue:
        raise Ungrammatical("STYLE block after a cue")
      # css rule bodies of the writer contain blank-line free text; a rule spans lines until '}'
      css = lines[1:]
      # the writer separates ::cue rules by single newlines; they all live in this block
      styles.append("\n".join(css))
      continue
    if lines[0].startswith("::cue") and styles and not seen_cue:
      styles.append("\n".join(lines))
      continue
    cue = Cue()
    j = 0
    m = _VTT_TIMING.match(lines[j])
    if m is None:
      if "-->" in lines[j]:
        raise Ungrammatical("bad timing line %r" % lines[j])
      cue.number = lines[j]
      j += 1
      if j >= len(lines):
        raise Ungrammatical("cue identifier without timing")
      m = _VTT_TIMING.match(lines[j])
      if m is None:
        raise Ungrammatical("bad timing line %r" % lines[j])
    g = m.groups()
    cue.begin, ok1 = _ms(ex, *g[0:4])
    cue.end, ok2 = _ms(ex, *g[4:8])
    cue.fields_ok = z3.And(ok1, ok2)
    for s in (g[8] or "").split():
      kk, vv = s.split(":", 1)
      cue.settings[kk] = vv
    j += 1
    cue.lines = lines[j:]
    for l in cue.lines:
      if l == "":
        raise Ungrammatical("empty line inside a payload")
      if "-->" in l:
        raise Ungrammatical("'-->' inside a payload")
    seen_cue = True
    cues.append(cue)
  return cues, "\n".join(styles)


_TAG = re.compile(r"<(/?)([a-zA-Z]+)((?:\.[^ >.]+)*)(?: ([^>]*))?>")


def scope_tags(payload, vtt):
  """returns (plain text, [set of active tags per character]); raises Ungrammatical on unbalanced / badly nested tags.
  Tags are ('b',), ('i',), ('u',), ('font', colour) for SRT; ('c', class) for VTT."""
  out = []
  styles = []
  stack = []
  i = 0
  while i < len(payload):
    ch = payload[i]
    if ch == "<":
      m = _TAG.match(payload, i)
      if m is None:
        if vtt:
          raise Ungrammatical("unescaped '<' in cue text")
        out.append(ch)
        styles.append(frozenset(stack))
        i += 1
        continue
      closing, name, classes, annot = m.group(1), m.group(2), m.group(3), m.group(4)
      if closing:
        if not stack or stack[-1][0] != name:
          raise Ungrammatical("end tag </%s> does not match the open element" % name)
        stack.pop()
      else:
        if name == "font":
          mm = re.fullmatch(r'color="([^"]*)"', annot or "")
          if mm is None:
            raise Ungrammatical("font tag without colour")
          stack.append(("font", mm.group(1)))
        elif name == "c":
          stack.append(("c", classes[1:] if classes else ""))
        else:
          stack.append((name,))
      i = m.end()
      continue
    if ch == "&" and vtt:
      m = re.match(r"&(amp|lt|gt|lrm|rlm|nbsp);", payload[i:])
      if m is None:
        raise Ungrammatical("unescaped '&' in cue text")
      out.append({"amp": "&", "lt": "<", "gt": ">", "lrm": "‎", "rlm": "‏", "nbsp": " "}[m.group(1)])
      styles.append(frozenset(stack))
      i += m.end()
      continue
    out.append(ch)
    styles.append(frozenset(stack))
    i += 1
  if stack:
    raise Ungrammatical("unclosed tag <%s>" % stack[-1][0])
  return "".join(out), styles
