"""C06 (cue content / timing) and C07 (grammar, tags, settings) for the SRT and WebVTT writers, end to end:
the real writers run on documents with symbolic times; their output (real text with hole tokens for the
formatted time fields) is parsed by the strict reference grammars of vf/rcue.py and compared with what R-ISD says
is visible in each interval between significant times."""
from __future__ import annotations

import re
from fractions import Fraction

import z3

import ttconv.model as model
import ttconv.style_properties as styles
import ttconv.time_code as tc
import ttconv.srt.writer as srt_writer
import ttconv.vtt.writer as vtt_writer
from ttconv.isd import ISD
from ttconv.srt.config import SRTWriterConfiguration
from ttconv.vtt.config import VTTWriterConfiguration

from .. import docgen, oracles, rcue, symrun
from ..docgen import T, S
from ..symrun import And, Or, Not, Implies, zreal, zint, RV, call, numeric_shadows
from ..runner import Harness, register

SP = styles.StyleProperties
R1 = [["r1", ""]]
RG = [["r1", "og=10,10 xt=80,20 da=before"], ["r2", "og=10,70 xt=80,20 da=after"], ["r3", "og=20,30 xt=60,24 da=center"]]

# (name, regions, body)
DOCS = [
  ("two-p-sequential", [], ["body", "", [["div", "", [["p", "b e", [S("A", "")]], ["p", "b e", [S("B", "")]]]]]]),
  ("p-with-br-and-nested", R1, ["body", "", [["div", "r=r1", [["p", "b e", [["span", "", [T("A"), ["br", ""], ["span", "b", [T("B")]]]], S("C", "e")]]]]]]),
  ("two-divs-one-region", R1, ["body", "", [["div", "r=r1", [["p", "b e", [S("A", "")]]]], ["div", "r=r1", [["p", "b", [S("B", "")]]]]]]),
  ("two-regions", [["r1", ""], ["r2", ""]], ["body", "", [["div", "r=r1", [["p", "b e", [S("A", "")]]]], ["div", "r=r2", [["p", "b e", [S("B", "")]]]]]]),
  ("styles", R1, ["body", "", [["div", "r=r1", [["p", "b e fw=bold", [S("A", "fs=italic"), S("B", "c=red td=underline"), ["span", "c=lime", [T("C"), ["span", "fw=normal bg=blue", [T("D")]]]]]]]]]]),
  ("unbounded-last", [], ["body", "", [["div", "", [["p", "b", [S("A", "")]], ["p", "b e", [S("B", "")]]]]]]),
  ("blank-and-preserve", [], ["body", "", [["div", "", [["p", "b e", [["span", "sp", [T(" ")]]]], ["p", "b e", [S("A", ""), ["span", "sp", [T(" ")]], S("B", "")]]]]]]),
  ("markup-chars", [], ["body", "", [["div", "", [["p", "b e", [S("a&b", "")]], ["p", "b e", [S("x<y", "")]]]]]]),
  ("ruby", [], ["body", "", [["div", "", [["p", "b e", [["ruby", "", [["rb", "", [S("A", "")]], ["rt", "", [S("B", "")]]]], S("C", "")]]]]]]),
  ("nested-div", R1, ["body", "", [["div", "r=r1", [["div", "b e", [["p", "", [S("A", "")]]]], ["p", "b e", [S("B", "")]]]]]]),
  ("three-p-two-regions", [["r1", ""], ["r2", "b"]],
   ["body", "", [["div", "", [["p", "r=r1 b e", [S("A", "")]], ["p", "r=r2", [S("B", "")]], ["p", "r=r1", [S("C", "")]]]]]]),
  ("two-divs-in-merged-region", [["r1", ""], ["r2", ""]],
   ["body", "", [["div", "r=r1", [["p", "b e", [S("A", "")]]]], ["div", "r=r1", [["p", "", [S("B", "")]]]], ["div", "r=r2", [["p", "", [S("C", "")]]]]]]),
  ("align-and-line", RG, ["body", "", [["div", "r=r1", [["p", "b e ta=center", [S("A", "")]]]], ["div", "r=r2", [["p", "e ta=end dir=rtl", [S("B", "")]]]],
                                      ["div", "r=r3", [["p", "ta=start", [S("C", "")]]]]]]),
  ("two-regions-two-p-each", [["r1", ""], ["r2", ""]],
   ["body", "", [["div", "r=r1", [["p", "b", [S("A", "")]], ["p", "", [S("B", "")]]]], ["div", "r=r2", [["p", "e", [S("C", "")]], ["p", "", [S("D", "")]]]]]]),
  ("three-breaks", [], ["body", "", [["div", "", [["p", "b e", [["span", "", [T("A"), ["br", ""], ["br", ""], ["br", ""], T("B")]]]]]]]]),
  ("align-rtl-start", R1, ["body", "", [["div", "r=r1", [["p", "b e ta=start dir=rtl", [S("A", "")]], ["p", "b e ta=end", [S("B", "")]]]]]]),
  ("styles-2", R1, ["body", "", [["div", "r=r1", [["p", "b e", [S("A", "c=red"), S("B", "bg=red"), S("C", "fs=italic td=underline"), S("D", "fw=bold fs=italic td=underline c=blue bg=blue")]]]]]]),
]

CONFIGS = [
  ("srt", {"text_formatting": True}),
  ("srt", {"text_formatting": False}),
  ("vtt", {"line_position": False, "text_align": False, "cue_id": True}),
  ("vtt", {"line_position": True, "text_align": True, "cue_id": False}),
]


def _paragraph_of(n):
  while n is not None and n.kind != "p":
    n = n.parent
  return n


def _under(n, kinds):
  while n is not None:
    if n.kind in kinds:
      return True
    n = n.parent
  return False


def computed_text_style(info, leaf, region):
  """R-STYLE restricted to what SRT/VTT can express: nearest specified value on the ancestor chain (region first),
  textDecoration merged per component, backgroundColor not inherited (the parent span's own)"""
  chain = ([region] if region is not None else []) + leaf.chain()
  out = {"bold": False, "italic": False, "underline": False, "color": styles.NamedColors.white.value, "bg": None}
  for n in chain:
    st = n.styles
    if SP.FontWeight in st:
      out["bold"] = st[SP.FontWeight] is styles.FontWeightType.bold
    if SP.FontStyle in st:
      out["italic"] = st[SP.FontStyle] is styles.FontStyleType.italic
    if SP.TextDecoration in st and st[SP.TextDecoration].underline is not None:
      out["underline"] = st[SP.TextDecoration].underline
    if SP.Color in st:
      out["color"] = st[SP.Color]
  parent = leaf.parent
  if parent is not None and SP.BackgroundColor in parent.styles and parent.styles[SP.BackgroundColor].components[3] != 0:
    out["bg"] = parent.styles[SP.BackgroundColor]
  return out


def hexcolor(c):
  return "#%02x%02x%02x%02x" % tuple(c.components)


def round_ms(x):
  """1000x rounded to nearest, ties to even (z3 Int term)"""
  x1000 = x * 1000
  fl = z3.ToInt(x1000)
  fr = x1000 - z3.ToReal(fl)
  h = RV(Fraction(1, 2))
  return z3.If(fr < h, fl, z3.If(fr > h, fl + 1, z3.If(fl % 2 == 0, fl, fl + 1)))


class WritersHarness(Harness):
  name = "c06_writers"
  quick_only_for = ("C18",)   # the deep tier runs under the harness's own property; the C18 roll-up reuses the quick partitions
  properties = ("C06", "C07", "C18", "C14")
  functions = ("srt.writer:from_model", "srt.writer:SrtContext.append_element", "srt.paragraph:SrtParagraph.to_string",
               "vtt.writer:from_model", "vtt.writer:VttContext.process_p", "vtt.cue:VttCue.to_string",
               "filters.isd.merge_regions:RegionsMergingISDFilter.process", "filters.isd.merge_paragraphs:ParagraphsMergingISDFilter.process",
               "filters.isd.supported_style_properties:SupportedStylePropertiesISDFilter.process",
               "filters.isd.default_style_properties:DefaultStylePropertyValuesISDFilter.process", "time_code:ClockTime.from_seconds")
  assumptions = ("the list of significant times is taken from ISD.significant_times (its completeness is C02's subject)",
                 "every time offset is a rational in [0,1000] s; ClockTime.from_seconds is executed for real and its contract "
                 "(fields == decomposition of the nearest millisecond, proved for all of [0,100 h) by the C12 check) is added "
                 "to the path condition (assume/guarantee cut)",
                 "formatted time fields are hole tokens: CPython's decimal rendering / zero padding of ints is trusted",
                 "the '+ 10.0' of the unbounded last cue and ClockTime.to_seconds() are float steps treated as real arithmetic",
                 "ruby: only the base text is required in the payload; annotation text may or may not be rendered")
  outside = ("documents other than the listed skeletons; region geometry for line: settings is concrete (10/70 % origins)",
             "more than 3 paragraphs; more than 2 regions")
  required_witnesses = ("cue-emitted", "interval-without-cue", "unbounded-last-cue", "two-regions-active")
  bounds = {"quick": "%d documents (1-2 regions, several div/p per region, nested spans, br, ruby, preserve-space blanks, markup "
                     "characters, per-span bold/italic/underline/colour/background) x {SRT tf on/off, VTT default, VTT "
                     "line+align without ids}; every begin/end a symbolic rational" % len(DOCS),
            "thorough": "same documents x all 2 SRT and 8 VTT configurations"}
  budget_s = {"quick": 280, "thorough": 1500}

  def partitions(self, tier):
    cfgs = list(range(len(CONFIGS)))
    out = [{"doc": d, "cfg": c} for d in range(len(DOCS)) for c in cfgs]
    if tier == "thorough":
      k = 0
      for lp in (False, True):
        for ta in (False, True):
          for ci in (False, True):
            out += [{"doc": d, "cfg": -1, "vtt": [lp, ta, ci]} for d in range(len(DOCS))]
    return out

  def patches(self, params):
    real_from_seconds = tc.ClockTime.from_seconds

    def contract_from_seconds(seconds):
      """runs the real ClockTime.from_seconds, then adds its contract (proved for every rational in [0,100 h) by the
      C12 check, harness c12_clock) to the path condition so that later queries need not re-derive it"""
      c = real_from_seconds(seconds)
      if isinstance(seconds, symrun.SymNum):
        ex = symrun.cur()
        ms = ((zint(c.get_hours()) * 60 + zint(c.get_minutes())) * 60 + zint(c.get_seconds())) * 1000 + zint(c.get_milliseconds())
        if not ex.is_certain(And(zreal(seconds) >= 0, zreal(seconds) < 360000)):
          raise symrun.HarnessError("ClockTime contract used outside [0,100h)")
        ex.assume(And(ms == round_ms(zreal(seconds)), zint(c.get_milliseconds()) >= 0, zint(c.get_milliseconds()) <= 999,
                      zint(c.get_seconds()) >= 0, zint(c.get_seconds()) <= 59, zint(c.get_minutes()) >= 0,
                      zint(c.get_minutes()) <= 59, zint(c.get_hours()) >= 0, zint(c.get_hours()) <= 99))
      return c

    return numeric_shadows(tc) + [(srt_writer, "float", symrun.sym_float), (vtt_writer, "float", symrun.sym_float),
                                  (tc.ClockTime, "from_seconds", staticmethod(contract_from_seconds))]

  # -- expected content of one interval

  def expected(self, ex, info, iv, s, per_region):
    """list of (region id, [lines]) visible at time s; each line is a list of (leaf, text)"""
    sz = zreal(s)
    regs = info.regions or [None]
    out = []
    for r in regs:
      lines = [[]]
      last_p = None
      for l in info.leaves():
        v = z3.simplify(oracles.visible(info, iv, l, r, sz))
        vis = True if z3.is_true(v) else False if z3.is_false(v) else ex.decide(v)
        if not vis:
          continue
        p = _paragraph_of(l)
        if last_p is not None and p is not last_p:
          lines.append([])
        last_p = p
        if l.kind == "br":
          lines.append([])
        else:
          lines[-1].append((l, l.text))
      out.append((r.eid if r is not None else None, r, [ln for ln in lines]))
    return out

  def body(self, ex, params):
    name, regions, skel = DOCS[params["doc"]]
    if params["cfg"] >= 0:
      fmt, cfgd = CONFIGS[params["cfg"]]
    else:
      fmt, cfgd = "vtt", dict(zip(("line_position", "text_align", "cue_id"), params["vtt"]))
    info = docgen.build(ex, skel, self._regions(regions))
    self._region_geometry(info, regions)
    tags = sorted({name, fmt} | set(k for k, v in cfgd.items() if v) | info.tags)
    doc = info.doc
    for v in info.time_syms:
      ex.assume(zreal(v) <= 1000)
    from .c14 import doc_fingerprint
    before = doc_fingerprint(doc) if "C14" in ex.active else None
    if fmt == "srt":
      out, exc = call(ex, srt_writer.from_model, doc, SRTWriterConfiguration(**cfgd))
    else:
      out, exc = call(ex, vtt_writer.from_model, doc, VTTWriterConfiguration(**cfgd))
    if "C14" in ex.active:
      ex.prove(doc_fingerprint(doc) == before, "C14:source-unchanged", {"op": fmt + "-writer", "tags": tags})
      if not exc:
        out2, exc2 = call(ex, srt_writer.from_model if fmt == "srt" else vtt_writer.from_model, doc,
                          SRTWriterConfiguration(**cfgd) if fmt == "srt" else VTTWriterConfiguration(**cfgd))
        def norm(s_):
          if not ex.symbolic or not s_:
            return s_
          return re.sub(r"⟦\d+\|[^⟧]*⟧", lambda m: "⟦" + ex.holes[m.group(0)].z.sexpr() + "⟧", s_)
        ex.prove(exc2 is None and norm(out) == norm(out2), "C14:repeatable", {"op": fmt + "-writer", "tags": tags})
        if fmt == "vtt" and out:
          # a result that depends on earlier calls shows as cue classes whose rule was emitted by some previous call only
          used = set(c for m_ in re.finditer(r"<c((?:\.[^ >.]+)+)>", out) for c in m_.group(1)[1:].split("."))
          declared = set(re.findall(r"::cue\(\.([^)]+)\)", out))
          ex.prove(used <= declared, "C14:output-independent-of-earlier-calls", {"op": "vtt-writer", "_undeclared": sorted(used - declared), "tags": tags})
    if exc:
      det = {"site": exc[1], "exc": type(exc[0]).__name__, "tags": tags}
      msg = str(exc[0])
      det["why"] = "end-not-after-begin" if "must be greater than" in msg else ("end-not-set" if "end time code must be set" in msg else "other")
      ex.fail("C18:writer-raises", det)
      ex.fail("C07:writer-does-not-fail", det)
      return
    if not ({"C06", "C07"} & ex.active):
      return
    # ---- grammar
    try:
      if fmt == "srt":
        cues = rcue.parse_srt(ex, out)
        css = ""
      else:
        cues, css = rcue.parse_vtt(ex, out)
    except rcue.Ungrammatical as e:
      ex.fail("C07:grammar", {"reason": re.sub(r"['\"%].*", "", str(e))[:60], "tags": tags})
      return
    parsed = []
    for c in cues:
      try:
        plain, st = rcue.scope_tags(c.payload, fmt == "vtt")
      except rcue.Ungrammatical as e:
        ex.fail("C07:grammar", {"reason": re.sub(r"['\"].*", "", str(e))[:60], "tags": tags})
        return
      parsed.append((c, plain, st))
    if "C07" in ex.active:
      for k, c in enumerate(cues):
        ex.prove(c.fields_ok, "C07:time-fields-in-range", {"tags": tags})
        ex.prove(c.begin < c.end, "C07:begin-before-end", {"tags": tags})
        if k + 1 < len(cues):
          ex.prove(c.begin <= cues[k + 1].begin, "C07:cues-ordered", {"tags": tags})
          if not (fmt == "vtt" and cfgd.get("line_position")):
            ex.prove(c.end <= cues[k + 1].begin, "C07:cues-do-not-overlap", {"tags": tags})
        if fmt == "srt":
          ex.prove(c.number == k + 1, "C07:numbering", {"tags": tags})
        elif cfgd.get("cue_id"):
          ex.prove(c.number == str(k + 1), "C07:numbering", {"tags": tags})
        else:
          ex.prove(c.number is None, "C07:numbering", {"tags": tags})
    # ---- expected cues
    sig, exc = call(ex, ISD.significant_times, doc)
    times = list(sig)
    iv = oracles.Intervals(info)
    per_region = fmt == "vtt" and cfgd.get("line_position")
    exp = []   # (interval index, region node or None, [lines])
    for i, s in enumerate(times):
      regs = self.expected(ex, info, iv, s, per_region)
      active = [(rid, r, lines) for rid, r, lines in regs if any(ln for ln in lines)]
      if len(active) > 1:
        ex.witness("two-regions-active")
      if per_region:
        for rid, r, lines in active:
          exp.append((i, r, lines))
      else:
        merged = []
        for rid, r, lines in active:
          merged += lines + [[]]
        exp.append((i, None, merged))
    # drop blank ones, normalise line breaks
    exp_cues = []
    for i, r, lines in exp:
      txt = "\n".join("".join(t for _, t in ln) for ln in lines)
      txt = re.sub(r"\n{2,}", "\n", txt).strip("\n\r")
      if txt == "" or txt.isspace():
        ex.witness("interval-without-cue")
        continue
      exp_cues.append((i, r, lines, txt))
    has_ruby = "ruby" in info.tags
    if "C06" in ex.active:
      if has_ruby:
        # only the base text is required
        base = [l.text for l in info.leaves() if l.kind == "text" and not _under(l, ("rt", "rtc", "rp"))]
        allp = "\n".join(p[1] for p in parsed)
        need = [t for i, r, lines, txt in exp_cues for ln in lines for l, t in ln if t in base]
        pos = 0
        okb = True
        for t in need:
          j = allp.find(t, pos)
          if j < 0:
            okb = False
            break
          pos = j + len(t)
        ex.prove(okb, "C06:ruby-base-text-present", {"tags": tags})
      else:
        ex.prove(len(parsed) == len(exp_cues), "C06:cue-count", {"got": len(parsed), "want": len(exp_cues), "tags": tags})
        for (c, plain, st), (i, r, lines, txt) in (zip(parsed, exp_cues) if len(parsed) == len(exp_cues) else []):
          ex.witness("cue-emitted")
          ex.prove(plain == txt, "C06:payload", {"_got": plain[:40], "_want": txt[:40], "tags": tags})
          sb = zreal(times[i])
          ex.prove(c.begin == round_ms(sb), "C06:cue-begin", {"tags": tags})
          if i + 1 < len(times):
            ex.prove(c.end == round_ms(zreal(times[i + 1])), "C06:cue-end", {"tags": tags})
          else:
            ex.witness("unbounded-last-cue")
            ex.prove(c.end == c.begin + 10000, "C06:unbounded-end", {"tags": tags})
    if "C07" in ex.active and not has_ruby:
      classes = dict((m.group(1), (m.group(2), m.group(3))) for m in re.finditer(r"::cue\(\.([^)]+)\) \{\n  ([a-z-]+): ([^;]+);\n\}", css))
      tf = cfgd.get("text_formatting", True)
      for (c, plain, st), (i, r, lines, txt) in (zip(parsed, exp_cues) if len(parsed) == len(exp_cues) else []):
        if plain != txt:
          continue
        pos = 0
        region_node = r
        for ln in lines:
          for l, t in ln:
            j = plain.find(t, pos)
            if j < 0:
              break
            pos = j + len(t)
            # region of this leaf (for inheritance from the region): the one it is associated with
            rn = region_node
            if rn is None and info.regions:
              for cand in info.regions:
                if oracles.region_assoc_ok(info, l, cand):
                  rn = cand
            want = computed_text_style(info, l, rn)
            for off in range(len(t)):
              got = st[j + off]
              if got:
                ex.witness("tags-present")
              gb = ("b",) in got
              gi = ("i",) in got
              gu = ("u",) in got
              gcol = None
              gbg = None
              for tg in got:
                if tg[0] == "font":
                  gcol = tg[1]
                elif tg[0] == "c":
                  kind, val = classes.get(tg[1], (None, None))
                  if kind == "color":
                    gcol = val
                  elif kind == "background-color":
                    gbg = val
                  else:
                    ex.fail("C07:class-declared", {"class": tg[1], "tags": tags})
              det = {"char": t[off], "tags": tags}
              if fmt == "srt" and not tf:
                ex.prove(not got, "C07:no-tags-when-formatting-off", det)
                continue
              wcol = hexcolor(want["color"]) if want["color"] != styles.NamedColors.white.value else None
              anc_bold = any(n.styles.get(SP.FontWeight) is styles.FontWeightType.bold for n in ([rn] if rn is not None else []) + l.chain()[:-1])
              anc_italic = any(n.styles.get(SP.FontStyle) is styles.FontStyleType.italic for n in ([rn] if rn is not None else []) + l.chain()[:-1])
              ex.prove(gb == want["bold"], "C07:bold-tag", dict(det, reset_inside_bold_ancestor=bool(anc_bold and not want["bold"])))
              ex.prove(gi == want["italic"], "C07:italic-tag", dict(det, reset_inside_italic_ancestor=bool(anc_italic and not want["italic"])))
              ex.prove(gu == want["underline"], "C07:underline-tag", det)
              ex.prove(gcol == wcol, "C07:color-tag", dict(det, got=gcol, want=wcol))
              if fmt == "vtt":
                ex.prove(gbg == (hexcolor(want["bg"]) if want["bg"] is not None else None), "C07:background-tag", det)
        # cue settings
        if fmt == "vtt":
          if cfgd.get("text_align"):
            ps = []
            for ln in lines:
              for l, _t in ln:
                pp = _paragraph_of(l)
                if pp is not None and pp not in ps:
                  ps.append(pp)
            aligns = set((pp.styles.get(SP.TextAlign, styles.TextAlignType.start), pp.styles.get(SP.Direction)) for pp in ps)
            p = ps[0] if len(aligns) == 1 else None   # paragraphs of different alignment merged into one cue: no crisp expectation
            if p is not None:
              ta = p.styles.get(SP.TextAlign, styles.TextAlignType.start)
              rtl = p.styles.get(SP.Direction) is styles.DirectionType.rtl
              want_al = {"center": "center", "start": "right" if rtl else "left", "end": "left" if rtl else "right"}.get(ta.value)
              if want_al is not None:
                ex.prove(c.settings.get("align") == want_al, "C07:align-setting", {"want": want_al, "got": c.settings.get("align"), "merged_paragraphs": len(ps) > 1, "tags": tags})
          else:
            ex.prove("align" not in c.settings, "C07:align-setting", {"tags": tags})
          if cfgd.get("line_position") and r is not None and r.eid in self.GEOM:
            oy, h, da = self.GEOM[r.eid]
            want_line = {"before": (oy, "start"), "after": (oy + h, "end"), "center": (oy + h / 2, "center")}[da]
            m = re.fullmatch(r"(\d+)%,(start|center|end)", c.settings.get("line", ""))
            ex.prove(m is not None and abs(int(m.group(1)) - want_line[0]) <= 0.5 and m.group(2) == want_line[1],
                     "C07:line-setting", {"want": "%s%%,%s" % want_line, "got": c.settings.get("line"), "tags": tags})
          elif not cfgd.get("line_position"):
            ex.prove("line" not in c.settings, "C07:line-setting", {"tags": tags})

  GEOM = {}

  def _regions(self, regions):
    out = []
    for rid, fl in regions:
      keep = " ".join(f for f in fl.split() if not f.startswith(("og=", "xt=")))
      out.append([rid, keep])
    return out

  def _region_geometry(self, info, regions):
    L = styles.LengthType
    U = L.Units
    self.GEOM = {}     # per document: a worker process runs many partitions, geometry of an earlier document must not linger
    for (rid, fl), rn in zip(regions, info.regions):
      og = [f for f in fl.split() if f.startswith("og=")]
      xt = [f for f in fl.split() if f.startswith("xt=")]
      if og and xt:
        ox, oy = map(int, og[0][3:].split(","))
        w, h = map(int, xt[0][3:].split(","))
        rn.elem.set_style(SP.Origin, styles.CoordinateType(x=L(ox, U.pct), y=L(oy, U.pct)))
        rn.elem.set_style(SP.Extent, styles.ExtentType(height=L(h, U.pct), width=L(w, U.pct)))
        da = [f for f in fl.split() if f.startswith("da=")]
        self.GEOM[rid] = (oy, h, da[0][3:] if da else "before")


register(WritersHarness())
