"""C04 IMSC reader: TTML time containment (par/seq, begin/dur/end, implicit durations) against R-TTML, time-expression
arithmetic, malformed attribute handling, style precedence (inline > nested > referential > chained, initial)."""
from __future__ import annotations

import logging
import xml.etree.ElementTree as et
from fractions import Fraction

import z3

import ttconv.model as model
import ttconv.style_properties as styles
import ttconv.imsc.reader as imsc_reader
import ttconv.imsc.utils as imsc_utils
import ttconv.imsc.attributes as imsc_attr
from ttconv.isd import ISD

from .. import symrun, holes
from ..symrun import And, Or, Not, zreal, zint, RV, call, SymNum
from ..runner import Harness, register

NS = "http://www.w3.org/ns/ttml"
TTS = "http://www.w3.org/ns/ttml#styling"
TTP = "http://www.w3.org/ns/ttml#parameter"
XMLNS = "http://www.w3.org/XML/1998/namespace"

# skeleton: [kind, flags, children]; flags: b d e (symbolic begin/dur/end), b? d? e? (presence by choice), seq, tc? (par|seq by choice)
# text leaves: ["span", flags, "TEXT"]
SKELETONS = [
  ("offset-par-div", ["body", "", [["div", "b", [["p", "d", [["span", "", "A"]]], ["p", "e", [["span", "", "B"]]]]]]]),
  ("seq-div", ["body", "", [["div", "seq", [["p", "d", [["span", "", "A"]]], ["p", "d", [["span", "", "B"]]], ["p", "e", [["span", "", "C"]]]]]]]),
  ("seq-in-offset-div", ["body", "b", [["div", "b seq", [["p", "b d", [["span", "", "A"]]], ["p", "d", [["span", "", "B"]]]]]]]),
  ("all-attrs", ["body", "", [["div", "b? e?", [["p", "b? d? e?", [["span", "b?", "A"]]]]]]]),
  ("tc-choice", ["body", "tc?", [["div", "tc? d", [["p", "d", [["span", "", "A"]]], ["p", "b d", [["span", "", "B"]]]]], ["div", "e", [["p", "", [["span", "", "C"]]]]]]]),
  ("nested-par-implicit", ["body", "", [["div", "b", [["div", "b", [["p", "b d", [["span", "", "A"]]]]], ["p", "d", [["span", "", "B"]]]]]]]),
  ("span-timing", ["body", "", [["div", "", [["p", "b e", [["span", "b d", "A"], ["br", ""], ["span", "e", "B"]]]]]]]),
  ("empty-containers", ["body", "", [["div", "b", []], ["div", "seq", []], ["div", "", [["p", "b d", []], ["p", "e", [["span", "", "A"]]]]]]]),
  ("seq-body", ["body", "seq", [["div", "d", [["p", "", [["span", "", "A"]]]]], ["div", "b d", [["p", "e", [["span", "", "B"]]]]]]]),
  ("seq-indefinite-child", ["body", "", [["div", "seq", [["p", "", [["span", "", "A"]]], ["p", "d", [["span", "", "B"]]]]]]]),
]


class XNode:
  def __init__(self, kind, parent):
    self.kind = kind
    self.parent = parent
    self.children = []
    self.begin = self.dur = self.end = None
    self.seq = False
    self.text = None
    self.abs_begin = None
    self.abs_end = None    # unclipped desired end (None = indefinite)


def build_xml(ex, skel):
  """returns (ElementTree, root XNode, marker table)"""
  markers = {}
  tt = et.Element("{%s}tt" % NS, {"{%s}lang" % XMLNS: "en"})
  count = [0]

  def rec(sk, xparent, nparent):
    kind, flags, kids = (list(sk) + [[]])[:3]
    n = XNode(kind, nparent)
    idx = count[0]
    count[0] += 1
    el = et.SubElement(xparent, "{%s}%s" % (NS, kind))
    fl = flags.split()
    for a in ("b", "d", "e"):
      present = a in fl or (a + "?" in fl and ex.boolean("n%d_has_%s" % (idx, a)))
      if present:
        v = ex.real("n%d_%s" % (idx, a), 0, 1000)
        key = "@n%d_%s" % (idx, a)
        markers[key] = v
        setattr(n, {"b": "begin", "d": "dur", "e": "end"}[a], v)
        if ex.symbolic:
          el.set({"b": "begin", "d": "dur", "e": "end"}[a], key)
        else:
          # native replay: a real time expression with the exact rational value (ticks at a tick rate equal to the denominator)
          el.set({"b": "begin", "d": "dur", "e": "end"}[a], key)
    if "seq" in fl or ("tc?" in fl and ex.boolean("n%d_seq" % idx)):
      n.seq = True
      el.set("timeContainer", "seq")
    if isinstance(kids, str):
      n.text = kids
      el.text = kids
    else:
      for c in kids:
        n.children.append(rec(c, el, n))
    return n

  root = rec(skel, tt, None)
  return et.ElementTree(tt), root, markers


def r_ttml(root):
  """TTML2 section 12 / SMIL time containment on the XML tree: fills abs_begin and the unclipped desired end of every node.
  Returns False when a seq child would have to begin after an indefinite sibling (never begins)."""
  ok = [True]

  def zmin(a, b):
    if a is None:
      return b
    if b is None:
      return a
    return z3.If(a <= b, a, b)

  def zmax(a, b):
    if a is None or b is None:
      return None
    return z3.If(a >= b, a, b)

  def rec(n, ref):
    n.abs_begin = ref + (zreal(n.begin) if n.begin is not None else 0)
    # children first (their times depend on this node's begin only)
    if n.kind == "br" or n.text is not None:
      implicit = None      # text content and br: indefinite in a par container
    elif not n.children:
      implicit = n.abs_begin
    elif n.seq:
      cur = n.abs_begin
      for c in n.children:
        if cur is None:
          ok[0] = False
          cur = n.abs_begin
        rec(c, cur)
        cur = c.abs_end
      implicit = cur
    else:
      implicit = n.abs_begin
      for c in n.children:
        rec(c, n.abs_begin)
        implicit = zmax(implicit, c.abs_end)
    cands = None
    if n.dur is not None:
      cands = zmin(cands, n.abs_begin + zreal(n.dur))
    if n.end is not None:
      cands = zmin(cands, ref + zreal(n.end))
    n.abs_end = cands if (n.dur is not None or n.end is not None) else implicit

  rec(root, RV(0))
  return ok[0]


def visible(n, t):
  cs = []
  while n is not None:
    cs.append(n.abs_begin <= t)
    if n.abs_end is not None:
      cs.append(t < n.abs_end)
    n = n.parent
  return z3.And(*cs)


def text_leaves(root):
  out = []

  def rec(n):
    if n.text is not None:
      out.append(n)
    for c in n.children:
      rec(c)
  rec(root)
  return out


class Quiet:
  def __enter__(self):
    self.lvl = logging.root.manager.disable
    logging.disable(logging.CRITICAL)

  def __exit__(self, *a):
    logging.disable(self.lvl)


class TimingHarness(Harness):
  name = "c04_timing"
  properties = ("C04", "C18")
  functions = ("imsc.reader:to_model", "imsc.elements:ContentElement.ParsingContext.process", "imsc.attributes:BeginAttribute.extract",
               "imsc.attributes:DurAttribute.extract", "imsc.attributes:EndAttribute.extract", "isd:ISD.from_model")
  assumptions = ("attribute values begin/dur/end are marker strings; imsc.utils.parse_time_expression is stubbed to return the "
                 "symbolic rational a marker stands for (the parser itself is decided by c04_time_expressions)",
                 "the reader's result is observed through ISD.from_model at a symbolic time (C01 decides that step)",
                 "sub-language: body/div/p/span/br, timeContainer par|seq on body/div, text only in spans of par paragraphs")
  outside = ("timeContainer on p/span; set elements and region timing (covered through the model in C01/C02); depth > 4",)
  required_witnesses = ("seq-container", "offset-par-container", "text-visible", "text-hidden")
  bounds = {"quick": "%d XML skeletons (par and seq containers, begin/dur/end in every combination on one chain, offset containers "
                     "with implicit duration, empty containers, br), <= 7 symbolic rational times, symbolic query time" % len(SKELETONS),
            "thorough": "same"}
  budget_s = {"quick": 280, "thorough": 900}

  def partitions(self, tier):
    return [{"skel": i} for i in range(len(SKELETONS))]

  def stubs(self, params):
    real = imsc_utils.parse_time_expression

    def stub(tick_rate, frame_rate, time_expr):
      if isinstance(time_expr, str) and time_expr.startswith("@"):
        return self._markers[time_expr]
      return real(tick_rate, frame_rate, time_expr)
    return [(imsc_utils, "parse_time_expression", stub)]

  _markers = {}

  def body(self, ex, params):
    name, skel = SKELETONS[params["skel"]]
    tree, root, markers = build_xml(ex, skel)
    TimingHarness._markers = markers
    with Quiet():
      doc, exc = call(ex, imsc_reader.to_model, tree)
    det = {"skeleton": name}
    if exc:
      det.update(site=exc[1], exc=type(exc[0]).__name__)
      ex.fail("C18:imsc-reader-raises", det)
      if "C04" in ex.active:
        ex.fail("C04:reader-fails", det)
      return
    if "C04" not in ex.active or doc is None:
      return
    defined = r_ttml(root)
    if not defined:
      return
    t = ex.real("t", 0)
    isd, exc = call(ex, ISD.from_model, doc, t)
    if exc:
      ex.fail("C18:snapshot-raises", dict(det, site=exc[1], exc=type(exc[0]).__name__))
      return
    shown = set()
    for r in isd.iter_regions():
      for e in r.dfs_iterator():
        if isinstance(e, model.Text):
          shown.add(e.get_text())
    if any(n.seq for n in [root] + [c for c in root.children]):
      ex.witness("seq-container")
    obligations = []
    for leaf in text_leaves(root):
      v = visible(leaf, zreal(t))
      offset_par = False
      a = leaf.parent
      while a is not None:
        if a.begin is not None and not a.seq and a.children and a.dur is None and a.end is None:
          offset_par = True
        a = a.parent
      if offset_par:
        ex.witness("offset-par-container")
      d2 = dict(det, text=leaf.text, offset_par_container_with_implicit_end=offset_par)
      if leaf.text in shown:
        ex.witness("text-visible")
        obligations.append((v, "C04:shown-but-not-active", d2))
      else:
        ex.witness("text-hidden")
        obligations.append((Not(v), "C04:active-but-missing", d2))
    ex.prove_all(obligations)


register(TimingHarness())


# ---------------------------------------------------------------------------
# time expressions: the real arithmetic after the regex match, on symbolic digit fields


class TimeExprHarness(Harness):
  name = "c04_time_expressions"
  properties = ("C04", "C18")
  functions = ("imsc.utils:parse_time_expression",)
  assumptions = ("digit fields are symbolic integers rendered as hole tokens; the reader's own regexes match them (digits treated "
                 "alike, checked); Fraction(str) of a field is the symbolic value; fractional fields (1.5s) are covered with "
                 "concrete strings only",)
  outside = ("fractional offset values with symbolic digits", "wall-clock and other unsupported TTML2 time syntaxes")
  required_witnesses = ("clock-time-frames", "offset-frames", "offset-ticks", "clock-time-fraction")
  # (fractional seconds are covered by the concrete cases: a hole token cannot be followed by literal fraction digits inside one Fraction(str))
  bounds = {"quick": "offset metrics h m s ms f t with a symbolic integer value; clock time hh:mm:ss, hh:mm:ss.fff (concrete "
                     "fraction digits), hh:mm:ss:ff with symbolic fields; frame rates 24,25,30,50,60,30000/1001,24000/1001; tick rate symbolic",
            "thorough": "same"}
  budget_s = {"quick": 120, "thorough": 300}
  validate_models = 3

  RATES = [Fraction(24), Fraction(25), Fraction(30), Fraction(30000, 1001), Fraction(24000, 1001)]

  def partitions(self, tier):
    return [{"kind": k} for k in ("offset", "clock", "clock-frames", "concrete")]

  def patches(self, params):
    pats = []
    for nm in dir(imsc_utils):
      if nm.endswith("_RE") and hasattr(getattr(imsc_utils, nm), "pattern"):
        pats.append((imsc_utils, nm, holes.HolePattern(getattr(imsc_utils, nm))))

    class HoleFraction(symrun.sym_fraction):
      def __new__(cls, n=0, d=None):
        if holes.has_hole(n):
          return symrun.sym_fraction(holes.hole_int(n), d)
        return symrun.sym_fraction.__new__(cls, n, d)
    pats.append((imsc_utils, "Fraction", HoleFraction))
    return pats

  def body(self, ex, params):
    kind = params["kind"]
    if kind == "concrete":
      cases = [("1.5s", Fraction(3, 2)), ("0.25h", Fraction(900)), ("10ms", Fraction(1, 100)), ("2.5m", Fraction(150)),
               ("01:02:03.250", Fraction(3723250, 1000)), ("100:00:00.1", 360000 + Fraction(1, 10)), ("15t", Fraction(15, 10)),
               ("1.5f", Fraction(3, 50)), ("00:00:01", Fraction(1)),
               # last frame of a second at every rate, fractional rates included (frames field = ceil(rate) - 1)
               ("00:00:01:24", 1 + Fraction(24, 25)),
               ("00:00:01:29", 1 + 29 / Fraction(30000, 1001), Fraction(30000, 1001)),
               ("00:00:01:23", 1 + 23 / Fraction(24000, 1001), Fraction(24000, 1001)),
               ("00:00:01:59", 1 + 59 / Fraction(60000, 1001), Fraction(60000, 1001)),
               ("00:00:01:29", 1 + Fraction(29, 30), Fraction(30))]
      case = cases[ex.choice("case", len(cases))]
      c, want = case[0], case[1]
      rate = case[2] if len(case) > 2 else Fraction(25)
      got, exc = call(ex, imsc_utils.parse_time_expression, 10, rate, c)
      ex.prove(exc is None and got == want, "C04:time-expression", {"syntax": "concrete", "_expr": c, "rate": str(rate)})
      return
    fr = self.RATES[ex.choice("rate", len(self.RATES))]
    if kind == "offset":
      metric = "hmsxft"[ex.choice("metric", 6)]
      v = ex.integer("value", 0, 10 ** 6)
      tick = ex.integer("tick_rate", 1, 10 ** 7)
      text = format(v, "d") + {"x": "ms"}.get(metric, metric)
      got, exc = call(ex, imsc_utils.parse_time_expression, tick, fr, text)
      if exc:
        ex.fail("C04:time-expression", {"syntax": "offset-" + metric, "exc": type(exc[0]).__name__})
        return
      vz = z3.ToReal(zint(v))
      want = {"h": vz * 3600, "m": vz * 60, "s": vz, "x": vz / 1000, "f": vz / RV(fr), "t": vz / z3.ToReal(zint(tick))}[metric]
      ex.witness({"f": "offset-frames", "t": "offset-ticks"}.get(metric, "x"))
      ex.prove(zreal(got) == want, "C04:time-expression", {"syntax": "offset-" + metric})
      return
    h, m, s = ex.integer("h", 0, 999), ex.integer("m", 0, 99), ex.integer("s", 0, 99)
    base = z3.ToReal(zint(h) * 3600 + zint(m) * 60 + zint(s))
    hms = "%s:%s:%s" % (format(h, "02d"), format(m, "02d"), format(s, "02d"))
    if kind == "clock":
      frac = ""
      got, exc = call(ex, imsc_utils.parse_time_expression, 1, fr, hms + frac)
      if exc:
        ex.fail("C04:time-expression", {"syntax": "clock-time", "exc": type(exc[0]).__name__})
        return
      ex.witness("clock-time-fraction")
      ex.prove(zreal(got) == base + RV(Fraction("0" + frac) if frac else 0), "C04:time-expression", {"syntax": "clock-time"})
      return
    f = ex.integer("f", 0, 99)
    got, exc = call(ex, imsc_utils.parse_time_expression, 1, fr, hms + ":" + format(f, "02d"))
    valid = z3.ToReal(zint(f)) < RV(fr)
    ex.witness("clock-time-frames")
    if exc:
      ex.prove(And(Not(valid), isinstance(exc[0], ValueError)), "C04:time-expression", {"syntax": "clock-time-frames", "rejected": True})
      return
    ex.prove(valid, "C04:time-expression", {"syntax": "clock-time-frames", "accepted_frame_count_beyond_rate": True})
    ex.prove(zreal(got) == base + z3.ToReal(zint(f)) / RV(fr), "C04:time-expression", {"syntax": "clock-time-frames"})


register(TimeExprHarness())


# ---------------------------------------------------------------------------
# malformed attributes are ignored (logged) and never change well-formed ones; style precedence

STYLE_ATTRS = [
  ("color", ["red", "#00ff00"], ["notacolor", "", "#12"]),
  ("textAlign", ["center", "end"], ["middle", "", "\x02"]),
  ("direction", ["rtl"], ["up", ""]),
  ("fontSize", ["2c", "150%"], ["big", "", "1e"]),
  ("fontWeight", ["bold"], ["heavy"]),
  ("textDecoration", ["underline", "noUnderline lineThrough"], ["wavy"]),
  ("textShadow", ["1px 2px", "1px 2px 3px red", "none"], ["1px"]),
  ("textOutline", ["red 10%"], ["fat"]),
  ("opacity", ["0.5"], ["half"]),
  ("visibility", ["hidden"], ["gone"]),
  ("display", ["none"], ["flex"]),
  ("writingMode", ["tbrl"], ["diagonal"]),
  ("extent", ["50% 40%"], ["50%", "wide"]),
  ("origin", ["10% 20%"], ["10%"]),
  ("lineHeight", ["normal", "125%"], ["tall"]),
  ("unicodeBidi", ["embed"], ["x"]),
  ("wrapOption", ["noWrap"], ["maybe"]),
  ("showBackground", ["whenActive"], ["sometimes"]),
  ("padding", ["1c", "1c 2c 3c 4c"], ["1c 2c 3c 4c 5c"]),
  ("rubyPosition", ["before"], ["inside"]),
  ("textEmphasis", ["filled dot", "none"], ["sparkles"]),
]


def tt_doc(body_children_xml="", head_xml="", tt_attrs=""):
  return ('<tt xml:lang="en" xmlns="%s" xmlns:tts="%s" xmlns:ttp="%s" %s><head>%s</head><body>%s</body></tt>'
          % (NS, TTS, TTP, tt_attrs, head_xml, body_children_xml))


class LogCapture(logging.Handler):
  def __init__(self):
    super().__init__()
    self.records = []

  def emit(self, record):
    self.records.append(record)


class MalformedHarness(Harness):
  name = "c04_malformed"
  properties = ("C04", "C18")
  functions = ("imsc.reader:to_model", "imsc.style_properties:StyleProperties", "imsc.elements:ContentElement.ParsingContext.process_specified_styling")
  assumptions = ("documents are real XML strings parsed by ElementTree; attribute values are chosen by selector variables from a "
                 "menu of well-formed and malformed values (exhaustive over the menu, no numeric symbol)",)
  outside = ("malformed values outside the menu", "the XML parser itself")
  required_witnesses = ("well-formed", "malformed")
  bounds = {"quick": "%d style attributes x (well-formed | malformed) values on region, p, span and br, next to a well-formed tts:color / "
                     "tts:fontStyle whose value must be unaffected" % len(STYLE_ATTRS), "thorough": "same"}
  budget_s = {"quick": 120, "thorough": 300}
  validate_models = 2

  def partitions(self, tier):
    return [{"attr": i} for i in range(len(STYLE_ATTRS))]

  def body(self, ex, params):
    name, good, bad = STYLE_ATTRS[params["attr"]]
    vals = [(v, True) for v in good] + [(v, False) for v in bad]
    val, ok = vals[ex.choice("value", len(vals))]
    where = ["region", "p", "span", "br"][ex.choice("where", 4)]
    esc = val.replace("&", "&amp;").replace('"', "&quot;").replace("\x02", "&#x2;")
    attr = 'tts:%s="%s"' % (name, esc)
    if "\x02" in val:
      return   # not XML 1.0
    a = {"region": "", "p": "", "span": "", "br": ""}
    a[where] = attr
    xml = tt_doc('<div><p region="r1" tts:fontStyle="italic" %s><span tts:color="blue" %s>X<br %s/></span></p></div>' % (a["p"], a["span"], a["br"]),
                 '<layout><region xml:id="r1" tts:backgroundColor="black" %s/></layout>' % a["region"])
    if where == "span" and name == "color":
      xml = xml.replace('tts:color="blue" ', "", 1)
    cap = LogCapture()
    lg = logging.getLogger("ttconv")
    old_disable = logging.root.manager.disable
    logging.disable(logging.NOTSET)
    lg.addHandler(cap)
    prop_ = lg.propagate
    lg.propagate = False
    try:
      doc, exc = call(ex, lambda: imsc_reader.to_model(et.ElementTree(et.fromstring(xml))))
    finally:
      lg.removeHandler(cap)
      lg.propagate = prop_
      logging.disable(old_disable)
    det = {"attr": name, "where": where, "well_formed": ok, "_value": val}
    ex.witness("well-formed" if ok else "malformed")
    if exc:
      if not isinstance(exc[0], (ValueError, et.ParseError)):
        ex.fail("C18:imsc-reader-raises", dict(det, site=exc[1], exc=type(exc[0]).__name__))
      if "C04" in ex.active:
        ex.fail("C04:malformed-attribute-not-ignored", dict(det, site=exc[1], exc=type(exc[0]).__name__))
      return
    if doc is not None:
      # whatever was read can be snapshotted (style attributes are legal on every content element, br included, even
      # where they do not apply)
      _, exc = call(ex, ISD.from_model, doc, Fraction(0))
      if exc:
        ex.fail("C18:snapshot-raises", dict(det, site=exc[1], exc=type(exc[0]).__name__, tags=["c04-malformed"]))
    if "C04" not in ex.active:
      return
    ex.prove(doc is not None, "C04:malformed-attribute-not-ignored", det)
    if doc is None:
      return
    p = [e for e in doc.get_body().dfs_iterator() if isinstance(e, model.P)]
    sp = [e for e in doc.get_body().dfs_iterator() if isinstance(e, model.Span) and any(isinstance(c, model.Text) for c in e)]
    ex.prove(len(p) == 1 and len(sp) >= 1, "C04:content-kept", det)
    if len(p) == 1 and sp:
      ex.prove(p[0].get_style(styles.StyleProperties.FontStyle) is styles.FontStyleType.italic, "C04:well-formed-neighbour-unchanged", det)
      if not (where == "span" and name == "color"):
        ex.prove(sp[0].get_style(styles.StyleProperties.Color) == styles.NamedColors.blue.value, "C04:well-formed-neighbour-unchanged", det)
      r = doc.get_region("r1")
      ex.prove(r is not None and r.get_style(styles.StyleProperties.BackgroundColor) == styles.NamedColors.black.value,
               "C04:well-formed-neighbour-unchanged", det)
    if not ok:
      ex.prove(any(r_.levelno >= logging.WARNING for r_ in cap.records), "C04:malformed-attribute-logged", det)


register(MalformedHarness())

# style precedence: inline > nested (region) > referential (later reference wins) > chained referential; initial
STYLE_DOCS = [
  ("inline-over-referential", '<styling><style xml:id="s1" tts:color="red"/></styling>', '<p style="s1" tts:color="blue">X</p>', "p", "blue"),
  ("later-reference-wins", '<styling><style xml:id="s1" tts:color="red"/><style xml:id="s2" tts:color="lime"/></styling>', '<p style="s1 s2">X</p>', "p", "lime"),
  ("chained", '<styling><style xml:id="s0" tts:color="red"/><style xml:id="s1" style="s0"/></styling>', '<p style="s1">X</p>', "p", "red"),
  ("direct-over-chained", '<styling><style xml:id="s0" tts:color="red"/><style xml:id="s1" style="s0" tts:color="lime"/></styling>', '<p style="s1">X</p>', "p", "lime"),
  ("diamond", '<styling><style xml:id="a" tts:color="red"/><style xml:id="b" style="a"/><style xml:id="c" style="a" tts:color="lime"/><style xml:id="d" style="b c"/></styling>',
   '<p style="d">X</p>', "p", "lime"),
  ("missing-reference", '<styling><style xml:id="s1" tts:color="red"/></styling>', '<p style="nope s1">X</p>', "p", "red"),
  # reference cycles: a style naming itself, two styles naming each other -- no defined precedence, but the reader terminates
  ("cycle-self", '<styling><style xml:id="a" style="a" tts:color="red"/></styling>', '<p style="a">X</p>', "p", "red"),
  ("cycle-two", '<styling><style xml:id="a" style="b" tts:color="red"/><style xml:id="b" style="a"/></styling>', '<p style="a">X</p>', "p", "red"),
  ("missing-reference-last", '<styling><style xml:id="s1" tts:color="red"/></styling>', '<p style="s1 nope">X</p>', "p", "red"),
  ("missing-reference-middle", '<styling><style xml:id="s1" tts:color="red" tts:backgroundColor="blue"/><style xml:id="s2" tts:color="lime"/></styling>',
   '<p style="s1 nope s2">X</p>', "p", "lime"),
  ("nested-region-style", '<layout><region xml:id="r1"><style tts:color="yellow"/></region></layout>', '<p region="r1">X</p>', "region", "yellow"),
  ("inline-over-nested-region", '<layout><region xml:id="r1" tts:color="blue"><style tts:color="yellow"/></region></layout>', '<p region="r1">X</p>', "region", "blue"),
  ("nested-over-referential-region", '<styling><style xml:id="s1" tts:color="red"/></styling><layout><region xml:id="r1" style="s1"><style tts:color="yellow"/></region></layout>',
   '<p region="r1">X</p>', "region", "yellow"),
  ("initial", '<styling><initial tts:color="cyan"/></styling>', '<p>X</p>', "initial", "cyan"),
  # mixed content: text before, between and after child elements becomes anonymous spans of a parallel p, whatever the
  # time container of the p's parent is
  ("mixed-content-under-seq-div", "", '<div timeContainer="seq"><p>Hello <span>big</span> world</p></div>', "text", "Hello big world"),
  ("mixed-content-nested-spans", "", '<p>a<span>b<span>c</span>d</span>e</p>', "text", "abcde"),
  ("mixed-content-par-div", "", '<div timeContainer="par"><p>x<span timeContainer="par">y</span>z</p></div>', "text", "xyz"),
]


def _chains():
  """chained referential styling of depth 2 and 3, every declaration order of the style elements: the colour comes from
  the deepest style unless a style nearer to the reference specifies it"""
  import itertools
  out = []
  for depth in (2, 3):
    ids = ["c%d" % i for i in range(depth + 1)]          # c0 -> c1 -> ... -> c<depth>
    for override in (None, 1):
      elems = []
      for i, sid in enumerate(ids):
        attrs = 'xml:id="%s"' % sid
        if i < depth:
          attrs += ' style="%s"' % ids[i + 1]
        if i == depth:
          attrs += ' tts:color="red" tts:backgroundColor="blue"'
        if override is not None and i == override:
          attrs += ' tts:color="lime"'
        elems.append("<style %s/>" % attrs)
      perms = list(itertools.permutations(range(len(elems))))
      if depth == 3:
        perms = perms[::5]
      for perm in perms:
        name = "chain-depth%d-order%s%s" % (depth, "".join(map(str, perm)), "-override" if override is not None else "")
        out.append((name, "<styling>%s</styling>" % "".join(elems[i] for i in perm), '<p style="c0">X</p>', "p",
                    "lime" if override is not None else "red"))
  return out


STYLE_DOCS += _chains()
LANGS = [("", "fr"), (' xml:lang=""', ""), (' xml:lang="en"', "en")]


class StyleGraphHarness(Harness):
  name = "c04_styles"
  properties = ("C04", "C18")
  functions = ("imsc.elements:StylingElement.from_xml", "imsc.elements:StyleElement.from_xml", "imsc.elements:ContentElement.ParsingContext.process_referential_styling",
               "imsc.elements:InitialElement.from_xml")
  assumptions = ("concrete documents chosen by a selector (no numeric symbol)",)
  outside = ("style graphs other than the listed ones",)
  required_witnesses = ("checked",)
  bounds = {"quick": "%d style graphs (inline, nested, referential, chained to depth 3 in every declaration order, diamond, missing id, initial) x xml:lang {inherited, empty, overridden}, xml:space inheritance" % len(STYLE_DOCS),
            "thorough": "same"}
  budget_s = {"quick": 60, "thorough": 120}
  validate_models = 1

  def partitions(self, tier):
    return [{}]

  def body(self, ex, params):
    name, head, content, where, want = STYLE_DOCS[ex.choice("doc", len(STYLE_DOCS))]
    lang_attr, want_lang = LANGS[ex.choice("lang", len(LANGS))]
    content = content.replace("<p", "<p" + lang_attr, 1)
    xml = tt_doc('<div xml:space="preserve" xml:lang="fr">%s</div>' % content, head)
    with Quiet():
      doc, exc = call(ex, lambda: imsc_reader.to_model(et.ElementTree(et.fromstring(xml))))
    det = {"doc": name, "lang": want_lang}
    if exc:
      ex.fail("C18:imsc-reader-raises", dict(det, site=exc[1], exc=type(exc[0]).__name__))
      return
    if "C04" not in ex.active:
      return
    ex.witness("checked")
    C = styles.StyleProperties.Color
    if where == "text":
      p = [e for e in doc.get_body().dfs_iterator() if isinstance(e, model.P)][0]
      got = "".join(t.get_text() for t in p.dfs_iterator() if isinstance(t, model.Text))
      ex.prove(got == want, "C04:anonymous-span", dict(det, _got=got, _want=want))
      isd, exc = call(ex, ISD.from_model, doc, Fraction(0))
      if exc:
        ex.fail("C18:snapshot-raises", dict(det, site=exc[1], exc=type(exc[0]).__name__, tags=["c04-styles"]))
        return
      shown = "".join(t.get_text() for r in isd.iter_regions() for t in r.dfs_iterator() if isinstance(t, model.Text))
      ex.prove(shown == want, "C04:anonymous-span", dict(det, shown=True, _got=shown, _want=want))
      return
    wantc = styles.NamedColors[want].value
    if where == "p":
      p = [e for e in doc.get_body().dfs_iterator() if isinstance(e, model.P)][0]
      ex.prove(p.get_style(C) == wantc, "C04:style-precedence", det)
    elif where == "region":
      ex.prove(doc.get_region("r1").get_style(C) == wantc, "C04:style-precedence", det)
    else:
      ex.prove(doc.get_initial_value(C) == wantc, "C04:style-precedence", det)
    p = [e for e in doc.get_body().dfs_iterator() if isinstance(e, model.P)][0]
    spans = [e for e in p if isinstance(e, model.Span)]
    ex.prove(p.get_space() is model.WhiteSpaceHandling.PRESERVE and p.get_lang() == want_lang
             and all(sp.get_lang() == want_lang for sp in spans), "C04:space-lang-inherited", det)
    if name.startswith("chain-"):
      ex.prove(p.get_style(styles.StyleProperties.BackgroundColor) == styles.NamedColors.blue.value, "C04:style-precedence",
               dict(det, what="property specified only at the end of the chain"))
    ex.prove(len(spans) == 1 and isinstance(spans[0].first_child(), model.Text) and spans[0].first_child().get_text() == "X",
             "C04:anonymous-span", det)


register(StyleGraphHarness())


# ---------------------------------------------------------------------------
# document parameter attributes on <tt>: well-formed and malformed values next to time expressions that depend on them

ITTP = "http://www.w3.org/ns/ttml/profile/imsc1#parameter"
PARAM_ATTRS = [
  ("ttp:frameRate", ["25", "30"], ["0", "x", "-1", "", "2.5"]),
  ("ttp:frameRateMultiplier", ["1000 1001", "1 1"], ["1 0", "0 1", "0 0", "1", "a b", "1001"]),
  ("ttp:tickRate", ["10", "10000000"], ["0", "x", "", "-5"]),
  ("tts:extent", ["640px 480px"], ["100px", "100 50", "640px 480px 2px", "10% 10%", "", "px px"]),
  ("ttp:cellResolution", ["40 20"], ["0 0", "32", "a b", "", "40 0"]),
  ("ittp:aspectRatio", ["16 9"], ["16 0", "0 9", "x", "16"]),
  ("ittp:activeArea", ["10% 10% 80% 80%"], ["10% 10%", "a b c d", "", "10 10 80 80"]),
  ("ttp:displayAspectRatio", ["4 3"], ["4 0", "0 3", "4"]),
  ("ttp:timeBase", ["media"], ["smpte", "clock", "x"]),
]
PARAM_TIMES = [("1s", "2s"), ("10f", "00:00:02:10"), ("30t", "50t"), ("00:00:01.5", "120f")]


class ParameterHarness(Harness):
  name = "c04_parameters"
  properties = ("C04", "C18")
  functions = ("imsc.attributes:FrameRateAttribute.extract", "imsc.attributes:TickRateAttribute.extract", "imsc.attributes:ExtentAttribute.extract",
               "imsc.attributes:CellResolutionAttribute.extract", "imsc.attributes:AspectRatioAttribute.extract",
               "imsc.attributes:ActiveAreaAttribute.extract", "imsc.utils:parse_time_expression", "imsc.reader:to_model")
  assumptions = ("concrete documents chosen by selector variables: parameter attribute x value menu x time-expression pair",)
  outside = ("parameter values outside the menu",)
  required_witnesses = ("well-formed", "malformed")
  bounds = {"quick": "%d parameter attributes on <tt> x well-formed/malformed values (zero rates, zero denominators, missing components, "
                     "wrong units) x 4 begin/end syntaxes (seconds, frames, ticks, clock time with frames)" % len(PARAM_ATTRS),
            "thorough": "same"}
  budget_s = {"quick": 60, "thorough": 120}
  validate_models = 1

  def partitions(self, tier):
    return [{"attr": i} for i in range(len(PARAM_ATTRS))]

  def body(self, ex, params):
    name, good, bad = PARAM_ATTRS[params["attr"]]
    vals = [(v, True) for v in good] + [(v, False) for v in bad]
    val, ok = vals[ex.choice("value", len(vals))]
    b, e = PARAM_TIMES[ex.choice("times", len(PARAM_TIMES))]
    xml = tt_doc('<div><p begin="%s" end="%s">X</p><p begin="0.5s">Y</p></div>' % (b, e), "",
                 'xmlns:ittp="%s" %s="%s"' % (ITTP, name, val))
    with Quiet():
      doc, exc = call(ex, lambda: imsc_reader.to_model(et.ElementTree(et.fromstring(xml))))
    det = {"attr": name, "well_formed": ok, "times": b + ".." + e, "_value": val}
    ex.witness("well-formed" if ok else "malformed")
    if exc:
      if not isinstance(exc[0], (ValueError, et.ParseError)):
        ex.fail("C18:imsc-reader-raises", dict(det, site=exc[1], exc=type(exc[0]).__name__))
      return
    if "C04" not in ex.active or doc is None:
      return
    # the paragraph timed in plain seconds never depends on the parameter: it is still there, starting at 1/2 s
    ps = [x for x in doc.get_body().dfs_iterator() if isinstance(x, model.P)] if doc.get_body() is not None else []
    ex.prove(len(ps) == 2 and ps[1].get_begin() == Fraction(1, 2), "C04:well-formed-neighbour-unchanged", det)
    _, exc = call(ex, ISD.from_model, doc, Fraction(3, 4))
    if exc:
      ex.fail("C18:snapshot-raises", dict(det, site=exc[1], exc=type(exc[0]).__name__, tags=["c04-parameters"]))


register(ParameterHarness())
