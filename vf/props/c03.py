"""C03 computed styles == TTML2/IMSC style resolution (R-STYLE).

Families (one harness each):
  F1 precedence  animation > specified > inherited > document initial > TTML default, for every style property
  F2 lengths     font-size chains (% / em / c / px through region>body>div>p>span) and everything measured against
                 the font size (lineHeight, linePadding, textOutline, textShadow, rubyReserve)
  F3 geometry    region extent / origin / position (edges) / padding per writing mode, symbolic numbers
  F4 merges      textDecoration components, textEmphasis auto/colour, ruby text half size, direction from writing mode
Numbers are exact rationals; the float constants the code computes (100/rows, 100/height ...) are used by the oracle
as the exact rational of the same Python float, so equality is asserted in real arithmetic (rounding of the style
arithmetic is not the subject)."""
from __future__ import annotations

from fractions import Fraction

import z3

import ttconv.model as model
import ttconv.style_properties as styles
from ttconv.isd import ISD

from ..symrun import And, Or, Not, zreal, RV, call, SymNum
from ..runner import Harness, register

SP = styles.StyleProperties
L = styles.LengthType
U = L.Units
NC = styles.NamedColors

# two distinct legal values per property (values whose computed form equals the specified one), + element kinds to test on
VALS = {
  SP.BackgroundColor: (NC.red.value, NC.blue.value),
  SP.Color: (NC.red.value, NC.blue.value),
  SP.Direction: (styles.DirectionType.rtl, styles.DirectionType.ltr),
  SP.Disparity: (L(2, U.rw), L(3, U.rw)),
  SP.Display: (styles.DisplayType.auto, styles.DisplayType.auto),
  SP.DisplayAlign: (styles.DisplayAlignType.center, styles.DisplayAlignType.after),
  SP.Extent: (styles.ExtentType(height=L(40, U.rh), width=L(50, U.rw)), styles.ExtentType(height=L(20, U.rh), width=L(30, U.rw))),
  SP.FillLineGap: (True, False),
  SP.FontFamily: (("serif",), (styles.GenericFontFamilyType.monospace, "Arial")),
  SP.FontSize: (L(10, U.rh), L(20, U.rh)),
  SP.FontStyle: (styles.FontStyleType.italic, styles.FontStyleType.oblique),
  SP.FontWeight: (styles.FontWeightType.bold, styles.FontWeightType.normal),
  SP.LineHeight: (L(12, U.rh), L(14, U.rh)),
  SP.LinePadding: (L(1, U.rh), L(2, U.rh)),
  SP.LuminanceGain: (2.0, 3.0),
  SP.MultiRowAlign: (styles.MultiRowAlignType.center, styles.MultiRowAlignType.end),
  SP.Opacity: (0.5, 0.25),
  SP.Origin: (styles.CoordinateType(x=L(5, U.rw), y=L(6, U.rh)), styles.CoordinateType(x=L(7, U.rw), y=L(8, U.rh))),
  SP.Overflow: (styles.OverflowType.visible, styles.OverflowType.hidden),
  SP.Padding: (styles.PaddingType(L(1, U.rh), L(2, U.rw), L(3, U.rh), L(4, U.rw)), styles.PaddingType(L(2, U.rh), L(2, U.rw), L(2, U.rh), L(2, U.rw))),
  SP.RubyAlign: (styles.RubyAlignType.spaceAround, styles.RubyAlignType.center),
  SP.RubyPosition: (styles.AnnotationPositionType.before, styles.AnnotationPositionType.after),
  SP.RubyReserve: (styles.RubyReserveType(styles.RubyReserveType.Position.both, L(3, U.rh)), styles.RubyReserveType(styles.RubyReserveType.Position.before, L(4, U.rh))),
  SP.Shear: (10.0, 20.0),
  SP.ShowBackground: (styles.ShowBackgroundType.whenActive, styles.ShowBackgroundType.always),
  SP.TextAlign: (styles.TextAlignType.center, styles.TextAlignType.end),
  SP.TextCombine: (styles.TextCombineType.all, styles.TextCombineType.none),
  SP.TextDecoration: (styles.TextDecorationType(underline=True, line_through=False, overline=False), styles.TextDecorationType(underline=False, line_through=True, overline=True)),
  SP.TextEmphasis: (styles.TextEmphasisType(styles.TextEmphasisType.Style.open_dot, NC.red.value, styles.TextEmphasisType.Position.before),
                    styles.TextEmphasisType(styles.TextEmphasisType.Style.filled_sesame, NC.blue.value, styles.TextEmphasisType.Position.after)),
  SP.TextOutline: (styles.TextOutlineType(L(1, U.rh), NC.red.value), styles.TextOutlineType(L(2, U.rh), NC.blue.value)),
  SP.TextShadow: (styles.TextShadowType((styles.TextShadowType.Shadow(L(1, U.rh), L(1, U.rh), None, NC.red.value),)),
                  styles.TextShadowType((styles.TextShadowType.Shadow(L(2, U.rh), L(2, U.rh), L(1, U.rh), NC.blue.value),))),
  SP.UnicodeBidi: (styles.UnicodeBidiType.embed, styles.UnicodeBidiType.bidiOverride),
  SP.Visibility: (styles.VisibilityType.hidden, styles.VisibilityType.visible),
  SP.WrapOption: (styles.WrapOptionType.noWrap, styles.WrapOptionType.wrap),
  SP.WritingMode: (styles.WritingModeType.tbrl, styles.WritingModeType.tblr),
}
THIRD = {
  SP.BackgroundColor: NC.green.value, SP.Color: NC.green.value, SP.FontStyle: styles.FontStyleType.normal,
  SP.TextAlign: styles.TextAlignType.start, SP.MultiRowAlign: styles.MultiRowAlignType.start, SP.Opacity: 0.75,
  SP.FontSize: L(30, U.rh), SP.LineHeight: L(16, U.rh), SP.Shear: 30.0, SP.LuminanceGain: 4.0,
  SP.DisplayAlign: styles.DisplayAlignType.before, SP.Disparity: L(4, U.rw), SP.LinePadding: L(3, U.rh),
  SP.FontFamily: ("x",), SP.UnicodeBidi: styles.UnicodeBidiType.normal,
}
PROPS = sorted(VALS, key=lambda p: p.__name__)
KINDS = {"region": model.Region, "body": model.Body, "div": model.Div, "p": model.P, "span": model.Span}
CHAIN = ["region", "body", "div", "p", "span"]


def build_chain(ruby=False, container=False):
  doc = model.ContentDocument()
  r = model.Region("r1", doc)
  doc.put_region(r)
  body = model.Body(doc)
  doc.set_body(body)
  body.set_region(r)
  div = model.Div(doc)
  p = model.P(doc)
  span = model.Span(doc)
  body.push_child(div)
  div.push_child(p)
  p.push_child(span)
  span.push_child(model.Text(doc, "X"))
  els = {"region": r, "body": body, "div": div, "p": p, "span": span}
  for k, e in els.items():
    if k != "region":
      e.set_id(k)
  if ruby:
    ruby_e = model.Ruby(doc)
    rb, rt = model.Rb(doc), model.Rt(doc)
    s1, s2 = model.Span(doc), model.Span(doc)
    s1.push_child(model.Text(doc, "B"))
    s2.push_child(model.Text(doc, "T"))
    rb.push_child(s1)
    rt.push_child(s2)
    extra = []
    if container:
      # container form: ruby > (rbc > rb, rtc > rt)
      rbc, rtc = model.Rbc(doc), model.Rtc(doc)
      rbc.push_child(rb)
      rtc.push_child(rt)
      ruby_e.push_children([rbc, rtc])
      extra = [("rtc", rtc)]
    else:
      ruby_e.push_children([rb, rt])
    p.push_child(ruby_e)
    for k, e in [("ruby", ruby_e), ("rb", rb), ("rt", rt), ("rtspan", s2)] + extra:
      e.set_id(k)
      els[k] = e
  return doc, els


def isd_elements(isd):
  out = {}
  for reg in isd.iter_regions():
    out["region"] = reg
    for e in reg.dfs_iterator():
      if e.get_id() is not None and not isinstance(e, model.Region):
        out[e.get_id()] = e
  return out


def num_eq(ex, got, exp):
  """got: number produced by the code; exp: z3 real term of the reference.  Symbolic mode: exact equality in real
  arithmetic.  Native replay: the code's floats carry IEEE rounding, so agreement is to 1e-9 relative."""
  if ex.symbolic:
    return zreal(got) == exp
  e = z3.simplify(exp)
  ev = Fraction(e.numerator_as_long(), e.denominator_as_long()) if z3.is_rational_value(e) else Fraction(e.as_long())
  return abs(Fraction(got) - ev) <= Fraction(1, 10 ** 9) * max(1, abs(ev))


def val_eq(a, b):
  """z3 Bool / bool: structural equality of two style values whose numbers may be symbolic"""
  if isinstance(a, L) and isinstance(b, L):
    return And(a.units is b.units, zreal(a.value) == zreal(b.value))
  if isinstance(a, (SymNum, int, float, Fraction)) and not isinstance(a, bool) and isinstance(b, (SymNum, int, float, Fraction)) and not isinstance(b, bool):
    return zreal(a) == zreal(b)
  if hasattr(a, "__dataclass_fields__") and type(a) is type(b):
    return And(*[val_eq(getattr(a, f), getattr(b, f)) for f in a.__dataclass_fields__])
  if isinstance(a, tuple) and isinstance(b, tuple):
    return And(len(a) == len(b), *[val_eq(x, y) for x, y in zip(a, b)])
  return a == b


class PrecedenceHarness(Harness):
  name = "c03_precedence"
  quick_only_for = ("C18",)   # the deep tier runs under the harness's own property; the C18 roll-up reuses the quick partitions
  properties = ("C03", "C13", "C18")
  functions = ("isd:ISD._process_element", "isd:StyleProcessor.inherit", "isd:ISD._compute_styles")
  assumptions = ("values used are already in computed form (enums, colours, rh/rw lengths) so that precedence is isolated from length resolution",)
  outside = ("more than one animation step per element in this family (last-step-wins is exercised by C01's display steps)",)
  required_witnesses = ("from-animation", "from-specified", "from-inherited", "from-initial", "from-default")
  bounds = {"quick": "all %d style properties x every applicable element kind of the chain region>body>div>p>span x which of "
                     "animation (symbolic interval, symbolic t) / specified / parent specified / document initial value are present" % len(PROPS),
            "thorough": "same"}
  budget_s = {"quick": 200, "thorough": 2400}

  def partitions(self, tier):
    return [{"prop": i} for i in range(len(PROPS))]

  def body(self, ex, params):
    prop = PROPS[params["prop"]]
    v1, v2 = VALS[prop]
    v3 = THIRD.get(prop, v2)
    kinds = [k for k in CHAIN if prop in KINDS[k]._applicableStyles]
    if not kinds:
      return
    k = kinds[ex.choice("kind", len(kinds))]
    doc, els = build_chain()
    e = els[k]
    idx = CHAIN.index(k)
    has_spec = ex.boolean("specified")
    has_anim = ex.boolean("animated")
    has_init = ex.boolean("initial")
    # an ancestor specifying the property (inheritance source); for region there is none
    anc = None
    if idx > 0 and ex.boolean("ancestor"):
      anc = els[CHAIN[ex.choice("which_ancestor", idx)]]
      anc.set_style(prop, v3)
    if has_spec:
      e.set_style(prop, v1)
    t = ex.real("t", 0)
    eb = None
    if has_anim:
      ab, ae = ex.real("ab", 0), ex.real("ae", 0)
      e.add_animation_step(model.DiscreteAnimationStep(prop, ab, ae, v2))
      if ex.boolean("own_begin"):
        # the animated element starts at its own offset: step times are relative to it (TTML2: set is a child of the element)
        eb = ex.real("eb", 0)
        e.set_begin(eb)
        if k != "region":
          els["region"].set_begin(None)
    if has_init:
      doc.put_initial_value(prop, v3 if anc is None else v1 if not has_spec else v2)
    init_val = doc.get_initial_value(prop) if has_init else None
    isd, exc = call(ex, ISD.from_model, doc, t)
    if exc:
      ex.fail("C18:snapshot-raises", {"site": exc[1], "exc": type(exc[0]).__name__, "tags": ["c03", prop.__name__]})
      return
    if "C13" in ex.active:
      from .c13 import shape_assertions
      class _I:  # minimal info object
        pass
      info = _I()
      info.doc = doc
      shape_assertions(ex, info, isd)
    if "C03" not in ex.active:
      return
    got_e = isd_elements(isd).get(k)
    if got_e is None:
      return  # pruned (display none etc.)
    got = got_e.get_style(prop)
    off = zreal(eb) if eb is not None else RV(0)
    active = And(off + zreal(ab) <= zreal(t), zreal(t) < off + zreal(ae)) if has_anim else False
    # expected by R-STYLE
    if has_spec:
      base = v1
      src = "from-specified"
    elif anc is not None and prop.is_inherited and not (k == "region"):
      base = v3
      src = "from-inherited"
    elif has_init:
      base = init_val
      src = "from-initial"
    else:
      base = prop.make_initial_value() if prop is not SP.Position else None
      src = "from-default"
    # the ancestor's value is inherited only through an unbroken chain of elements; all chain elements exist here
    if prop is SP.Direction and k == "region" and not has_spec:
      wm = els["region"].get_style(SP.WritingMode)
      base = base  # writing mode untouched in this family (lrtb): direction ltr by special semantics == default
    det = {"prop": prop.__name__, "kind": k, "source": src}
    if has_anim:
      if ex.decide(active):
        ex.witness("from-animation")
        ex.prove(val_eq(got, v2), "C03:precedence", dict(det, source="from-animation"))
        return
    ex.witness(src)
    if base is None:
      return
    if src == "from-default" and prop in (SP.Extent, SP.Origin, SP.Padding, SP.LinePadding, SP.FontSize, SP.Disparity, SP.LineHeight):
      return  # defaults in non-computed units are family F2/F3's subject
    if src == "from-initial" and False:
      return
    ex.prove(val_eq(got, base), "C03:precedence", det)


register(PrecedenceHarness())

UNITS = [U.pct, U.em, U.c, U.px, U.rh]


def ref_len(value, unit, pct_ref, em_ref, c_ref, px_ref):
  """R-STYLE length resolution: (z3 real, unit) from a specified (number, unit) and the reference lengths"""
  v = zreal(value)
  if unit is U.pct:
    return v * pct_ref[0] / 100, pct_ref[1]
  if unit is U.em:
    return v * em_ref[0], em_ref[1]
  if unit is U.c:
    return v * c_ref[0], c_ref[1]
  if unit is U.px:
    return v * px_ref[0], px_ref[1]
  return v, unit


class LengthHarness(Harness):
  name = "c03_lengths"
  quick_only_for = ("C18",)   # the deep tier runs under the harness's own property; the C18 roll-up reuses the quick partitions
  properties = ("C03", "C13", "C18")
  functions = ("isd:_compute_length", "isd:StyleProcessors.FontSize.compute", "isd:StyleProcessors.FontSize.inherit",
               "isd:StyleProcessors.LineHeight.compute", "isd:StyleProcessors.LinePadding.compute", "isd:StyleProcessors.TextOutline.compute",
               "isd:StyleProcessors.TextShadow.compute", "isd:StyleProcessors.RubyReserve.compute")
  assumptions = ("style arithmetic is compared in real arithmetic; the float constants 100/rows, 100/height are taken as the exact "
                 "rational value of the same Python float",)
  outside = ("IEEE rounding of products of lengths", "rw/rh specified font sizes other than rh")
  required_witnesses = ("unit-%", "unit-em", "unit-c", "unit-px", "half-size-ruby-text", "ruby-container-form")
  bounds = {"quick": "font size specified on any subset of region/p/span with any of 5 units and symbolic values (0,1000); dependent "
                     "lengths (lineHeight, linePadding, textOutline, textShadow x/y/blur, rubyReserve) on p/span in any unit; "
                     "4 cell resolutions x 3 pixel extents", "thorough": "same with div and body font sizes as well"}
  budget_s = {"quick": 200, "thorough": 2400}

  RES = [((15, 32), (1920, 1080)), ((10, 20), (640, 480)), ((1, 1), (1, 1)), ((23, 40), (1920, 1080))]

  def partitions(self, tier):
    return [{"res": r, "dep": d} for r in range(len(self.RES)) for d in ("fontsize", "lineheight", "linepadding", "outline", "shadow", "rubyreserve", "rubytext", "animated")]

  def body(self, ex, params):
    (rows, cols), (w, h) = self.RES[params["res"]]
    dep = params["dep"]
    container = dep == "rubytext" and ex.boolean("ruby_container_form")
    doc, els = build_chain(ruby=(dep == "rubytext"), container=container)
    doc.set_cell_resolution(model.CellResolutionType(rows=rows, columns=cols))
    doc.set_px_resolution(model.PixelResolutionType(width=w, height=h))
    c_ref = (RV(Fraction(100 / rows)), U.rh)
    px_ref = (RV(Fraction(100 / h)), U.rh)
    decoy, dels = build_chain()
    decoy.set_cell_resolution(model.CellResolutionType(rows=rows, columns=cols))
    decoy.set_px_resolution(model.PixelResolutionType(width=w + 7, height=h + 13))
    dels["p"].set_style(SP.FontSize, L(10, U.px))
    call(ex, ISD.from_model, decoy, 0)
    levels = ["region", "p", "span"] if ex.tier == "quick" else ["region", "body", "div", "p", "span"]
    spec = {}
    for k in levels:
      if ex.boolean("fs_" + k):
        u = UNITS[ex.choice("fs_unit_" + k, len(UNITS))]
        v = ex.real("fs_val_" + k, 0, 1000)
        ex.assume(zreal(v) > 0)
        els[k].set_style(SP.FontSize, L(v, u))
        spec[k] = (v, u)
        ex.witness("unit-" + u.value)
    # reference: computed font size down the chain
    fs = {}
    parent_fs = None
    for k in CHAIN:
      if k in spec:
        base = parent_fs if parent_fs is not None else c_ref
        fs[k] = ref_len(spec[k][0], spec[k][1], base, base, c_ref, px_ref)
      elif parent_fs is not None:
        fs[k] = parent_fs
      else:
        fs[k] = ref_len(1, U.c, c_ref, c_ref, c_ref, px_ref)   # TTML default 1c
      parent_fs = fs[k]
    target = "span" if dep in ("outline", "shadow") else "p"
    dv = None
    if dep != "fontsize" and dep != "rubytext":
      du = UNITS[ex.choice("dep_unit", len(UNITS))]
      dv = ex.real("dep_val", 0, 1000)
      if dep == "animated":
        # the value comes only from an active set animation (no static value on the element)
        els["p"].add_animation_step(model.DiscreteAnimationStep(SP.LineHeight, None, None, L(dv, du)))
      if dep == "lineheight":
        els["p"].set_style(SP.LineHeight, L(dv, du))
      elif dep == "linepadding":
        du = U.c   # the model only accepts ebutts:linePadding in cells
        els["p"].set_style(SP.LinePadding, L(dv, du))
      elif dep == "outline":
        els["span"].set_style(SP.TextOutline, styles.TextOutlineType(L(dv, du), None))
      elif dep == "shadow":
        els["span"].set_style(SP.TextShadow, styles.TextShadowType((styles.TextShadowType.Shadow(L(dv, du), L(dv, U.rh), L(dv, du), None),)))
      elif dep == "rubyreserve":
        if ex.boolean("rr_has_len"):
          els["p"].set_style(SP.RubyReserve, styles.RubyReserveType(styles.RubyReserveType.Position.both, L(dv, du)))
        else:
          els["p"].set_style(SP.RubyReserve, styles.RubyReserveType(styles.RubyReserveType.Position.both, None))
          du = None
    isd, exc = call(ex, ISD.from_model, doc, 0)
    if exc:
      ex.fail("C18:snapshot-raises", {"site": exc[1], "exc": type(exc[0]).__name__, "tags": ["c03", dep]})
      return
    if "C13" in ex.active:
      from .c13 import shape_assertions
      class _I:
        pass
      info = _I()
      info.doc = doc
      shape_assertions(ex, info, isd)
    if "C03" not in ex.active:
      return
    got = isd_elements(isd)

    def check_len(gl, exp, what):
      ex.prove(And(gl.units is exp[1], num_eq(ex, gl.value, exp[0])), "C03:length", {"what": what, "dep": dep})

    for k in ("p", "span"):
      if k in got and got[k].get_style(SP.FontSize) is not None:
        check_len(got[k].get_style(SP.FontSize), fs[k], "fontSize@" + k)
    if dep == "rubytext":
      # ruby text defaults to half the font size of the ruby container's parent: on rt directly under ruby, or on rtc
      # (whose rt children then inherit it unchanged); the span inside rt inherits that
      if "rt" in got:
        ex.witness("half-size-ruby-text")
        if container:
          ex.witness("ruby-container-form")
        check_len(got["rt"].get_style(SP.FontSize), (fs["p"][0] / 2, fs["p"][1]), "fontSize@rt")
        check_len(got["rtspan"].get_style(SP.FontSize), (fs["p"][0] / 2, fs["p"][1]), "fontSize@rt>span")
        check_len(got["rb"].get_style(SP.FontSize), fs["p"], "fontSize@rb")
      return
    if dep == "fontsize":
      return
    efs = fs[target]
    if dep == "rubyreserve" and du is None:
      rr = got["p"].get_style(SP.RubyReserve)
      check_len(rr.length, (efs[0] / 2, efs[1]), "rubyReserve default length")
      return
    exp = ref_len(dv, du, efs, efs, c_ref, px_ref)
    if dep in ("lineheight", "animated"):
      check_len(got["p"].get_style(SP.LineHeight), exp, "lineHeight")
    elif dep == "linepadding":
      check_len(got["p"].get_style(SP.LinePadding), exp, "linePadding")
    elif dep == "outline":
      o = got["span"].get_style(SP.TextOutline)
      check_len(o.thickness, exp, "textOutline thickness")
      ex.prove(o.color == got["span"].get_style(SP.Color), "C03:length", {"what": "textOutline colour defaults to computed colour", "dep": dep})
    elif dep == "shadow":
      s = got["span"].get_style(SP.TextShadow).shadows[0]
      check_len(s.x_offset, exp, "textShadow x")
      check_len(s.blur_radius, exp, "textShadow blur")
      check_len(s.y_offset, (zreal(dv), U.rh), "textShadow y")
    elif dep == "rubyreserve":
      check_len(got["p"].get_style(SP.RubyReserve).length, exp, "rubyReserve length")


register(LengthHarness())

WMS = [styles.WritingModeType.lrtb, styles.WritingModeType.rltb, styles.WritingModeType.tbrl, styles.WritingModeType.tblr]
GUNITS = [U.pct, U.c, U.px, U.rh]


class GeometryHarness(Harness):
  name = "c03_geometry"
  quick_only_for = ("C18",)   # the deep tier runs under the harness's own property; the C18 roll-up reuses the quick partitions
  properties = ("C03", "C13", "C18")
  functions = ("isd:StyleProcessors.Extent.compute", "isd:StyleProcessors.Origin.compute", "isd:StyleProcessors.Position.compute",
               "isd:StyleProcessors.Padding.compute")
  assumptions = LengthHarness.assumptions
  outside = ("em units in region geometry", "animated geometry")
  required_witnesses = ("position-right-edge", "position-bottom-edge", "vertical-writing-mode", "origin-only")
  bounds = {"quick": "region extent/origin/position/padding with symbolic numbers in %, c, px, rh/rw; 4 writing modes; 4 edge "
                     "combinations; 2 cell/pixel resolutions", "thorough": "same, 4 resolutions"}
  budget_s = {"quick": 200, "thorough": 2400}

  def partitions(self, tier):
    nres = 2 if tier == "quick" else 4
    return [{"res": r, "kind": k} for r in range(nres) for k in ("extent-origin", "position", "padding")]

  def body(self, ex, params):
    (rows, cols), (w, h) = LengthHarness.RES[params["res"]]
    doc, els = build_chain()
    doc.set_cell_resolution(model.CellResolutionType(rows=rows, columns=cols))
    doc.set_px_resolution(model.PixelResolutionType(width=w, height=h))
    r = els["region"]
    ch, cw = (RV(Fraction(100 / rows)), U.rh), (RV(Fraction(100 / cols)), U.rw)
    ph, pw = (RV(Fraction(100 / h)), U.rh), (RV(Fraction(100 / w)), U.rw)
    H100, W100 = (RV(100), U.rh), (RV(100), U.rw)

    def pick(name, horizontal):
      u = GUNITS[ex.choice(name + "_u", len(GUNITS))]
      if u is U.rh and horizontal:
        u = U.rw
      v = ex.real(name, 0, 2000)
      return v, u

    def ref(v, u, pct, horizontal):
      return ref_len(v, u, pct, None, cw if horizontal else ch, pw if horizontal else ph)

    kind = params["kind"]
    ew, eh = pick("ext_w", True), pick("ext_h", False)
    r.set_style(SP.Extent, styles.ExtentType(height=L(*eh), width=L(*ew)))
    exp_w, exp_h = ref(*ew, W100, True), ref(*eh, H100, False)
    exp_ox = exp_oy = None
    if kind == "extent-origin":
      ox, oy = pick("org_x", True), pick("org_y", False)
      r.set_style(SP.Origin, styles.CoordinateType(x=L(*ox), y=L(*oy)))
      exp_ox, exp_oy = ref(*ox, W100, True), ref(*oy, H100, False)
      ex.witness("origin-only")
    elif kind == "position":
      px_, py_ = pick("pos_x", True), pick("pos_y", False)
      he = [styles.PositionType.HEdge.left, styles.PositionType.HEdge.right][ex.choice("hedge", 2)]
      ve = [styles.PositionType.VEdge.top, styles.PositionType.VEdge.bottom][ex.choice("vedge", 2)]
      r.set_style(SP.Position, styles.PositionType(h_offset=L(*px_), v_offset=L(*py_), h_edge=he, v_edge=ve))
      # TTML2 10.2.26 tts:position (CSS background-position semantics): percentages refer to (root - region extent);
      # an offset from the right/bottom edge places the region's right/bottom edge that far from the root's
      if exp_w[1] is not U.rw or exp_h[1] is not U.rh:
        return
      offx = ref(*px_, (100 - exp_w[0], U.rw), True)
      offy = ref(*py_, (100 - exp_h[0], U.rh), False)
      exp_ox = (offx[0], offx[1]) if he is styles.PositionType.HEdge.left else (100 - exp_w[0] - offx[0], offx[1])
      exp_oy = (offy[0], offy[1]) if ve is styles.PositionType.VEdge.top else (100 - exp_h[0] - offy[0], offy[1])
      if he is styles.PositionType.HEdge.right:
        ex.witness("position-right-edge")
      if ve is styles.PositionType.VEdge.bottom:
        ex.witness("position-bottom-edge")
    elif kind == "padding":
      wm = WMS[ex.choice("wm", 4)]
      r.set_style(SP.WritingMode, wm)
      vertical = wm in (styles.WritingModeType.tbrl, styles.WritingModeType.tblr)
      if vertical:
        ex.witness("vertical-writing-mode")
      # before/after lie on the block progression axis (vertical for lrtb/rltb, horizontal for tb*), start/end on the other
      pb, pe = pick("pad_before", vertical), pick("pad_end", not vertical)
      r.set_style(SP.Padding, styles.PaddingType(before=L(*pb), end=L(*pe), after=L(*pb), start=L(*pe)))
    isd, exc = call(ex, ISD.from_model, doc, 0)
    if exc:
      ex.fail("C18:snapshot-raises", {"site": exc[1], "exc": type(exc[0]).__name__, "tags": ["c03", kind]})
      return
    if "C13" in ex.active:
      from .c13 import shape_assertions
      class _I:
        pass
      info = _I()
      info.doc = doc
      shape_assertions(ex, info, isd)
    if "C03" not in ex.active:
      return
    g = isd_elements(isd)["region"]
    xt = g.get_style(SP.Extent)

    def chk(gl, exp, what, extra=None):
      det = {"what": what, "kind": kind}
      det.update(extra or {})
      ex.prove(And(gl.units is exp[1], num_eq(ex, gl.value, exp[0])), "C03:geometry", det)

    chk(xt.width, exp_w, "extent width")
    chk(xt.height, exp_h, "extent height")
    if exp_ox is not None:
      o = g.get_style(SP.Origin)
      edges = {"hedge": he.value, "vedge": ve.value} if kind == "position" else None
      chk(o.x, exp_ox, "origin x", edges)
      chk(o.y, exp_oy, "origin y", edges)
    if kind == "padding":
      pd = g.get_style(SP.Padding)
      ref_b = ref(*pb, exp_w if vertical else exp_h, vertical)
      ref_e = ref(*pe, exp_h if vertical else exp_w, not vertical)
      chk(pd.before, ref_b, "padding before", {"wm": wm.value})
      chk(pd.after, ref_b, "padding after", {"wm": wm.value})
      chk(pd.start, ref_e, "padding start", {"wm": wm.value})
      chk(pd.end, ref_e, "padding end", {"wm": wm.value})


register(GeometryHarness())


class MergeHarness(Harness):
  name = "c03_merges"
  quick_only_for = ("C18",)   # the deep tier runs under the harness's own property; the C18 roll-up reuses the quick partitions
  properties = ("C03", "C18")
  functions = ("isd:StyleProcessors.TextDecoration.inherit", "isd:StyleProcessors.TextEmphasis.compute", "isd:ISD._process_element")
  assumptions = ()
  outside = ()
  required_witnesses = ("decoration-merged", "emphasis-auto-vertical", "direction-from-writing-mode")
  bounds = {"quick": "textDecoration: every combination of {unset, on, off} per component on p and span; textEmphasis auto x 4 "
                     "writing modes x colour given/absent; region direction from writing mode x specified direction", "thorough": "same"}
  budget_s = {"quick": 120, "thorough": 600}

  def partitions(self, tier):
    return [{"kind": k} for k in ("decoration", "emphasis", "direction")]

  def body(self, ex, params):
    doc, els = build_chain()
    kind = params["kind"]
    TRI = [None, True, False]
    if kind == "decoration":
      pv = [TRI[ex.choice("p_%s" % c, 3)] for c in "ulo"]
      sv = [TRI[ex.choice("s_%s" % c, 3)] for c in "ulo"]
      p_set = ex.boolean("p_set")
      s_set = ex.boolean("s_set")
      if p_set:
        els["p"].set_style(SP.TextDecoration, styles.TextDecorationType(*pv))
      if s_set:
        els["span"].set_style(SP.TextDecoration, styles.TextDecorationType(*sv))
    elif kind == "emphasis":
      wm = WMS[ex.choice("wm", 4)]
      els["region"].set_style(SP.WritingMode, wm)
      has_col = ex.boolean("emph_color")
      st = [styles.TextEmphasisType.Style.auto, styles.TextEmphasisType.Style.open_dot][ex.choice("emph_style", 2)]
      els["span"].set_style(SP.Color, NC.red.value)
      els["span"].set_style(SP.TextEmphasis, styles.TextEmphasisType(st, NC.blue.value if has_col else None, styles.TextEmphasisType.Position.before))
    else:
      wmi = ex.choice("wm", 5)
      if wmi < 4:
        els["region"].set_style(SP.WritingMode, WMS[wmi])
      dirs = [None, styles.DirectionType.ltr, styles.DirectionType.rtl]
      d = dirs[ex.choice("dir", 3)]
      if d is not None:
        els["region"].set_style(SP.Direction, d)
    isd, exc = call(ex, ISD.from_model, doc, 0)
    if exc:
      ex.fail("C18:snapshot-raises", {"site": exc[1], "exc": type(exc[0]).__name__, "tags": ["c03", kind]})
      return
    if "C03" not in ex.active:
      return
    g = isd_elements(isd)
    if kind == "decoration":
      # TTML2 10.2.36: components not mentioned by an element keep the inherited state; initial: all off
      cur = [False, False, False]
      if p_set:
        cur = [c if v is None else v for c, v in zip(cur, pv)]
      pcur = list(cur)
      if s_set:
        cur = [c if v is None else v for c, v in zip(cur, sv)]
        ex.witness("decoration-merged")
      got = g["span"].get_style(SP.TextDecoration)
      gotv = [bool(got.underline), bool(got.line_through), bool(got.overline)]
      ex.prove(gotv == cur, "C03:text-decoration-merge", {"got": gotv, "want": cur, "p_set": p_set, "s_set": s_set})
    elif kind == "emphasis":
      got = g["span"].get_style(SP.TextEmphasis)
      want_style = st
      if st is styles.TextEmphasisType.Style.auto:
        vertical = wm in (styles.WritingModeType.tbrl, styles.WritingModeType.tblr)
        want_style = styles.TextEmphasisType.Style.filled_sesame if vertical else styles.TextEmphasisType.Style.filled_circle
        if vertical:
          ex.witness("emphasis-auto-vertical")
      ex.prove(got.style is want_style, "C03:text-emphasis", {"what": "auto style", "wm": wm.value})
      ex.prove(got.color == (NC.blue.value if has_col else NC.red.value), "C03:text-emphasis", {"what": "colour defaults to computed colour"})
    else:
      got = g["region"].get_style(SP.Direction) if "region" in g else None
      # direction is not applicable to region in the ISD (removed), observe it on p where it is inherited
      gp = g["p"].get_style(SP.Direction)
      wm = WMS[wmi] if wmi < 4 else styles.WritingModeType.lrtb
      if d is not None:
        want = d
      elif wm is styles.WritingModeType.rltb:
        want = styles.DirectionType.rtl
        ex.witness("direction-from-writing-mode")
      else:
        want = styles.DirectionType.ltr
      ex.prove(gp is want, "C03:direction-from-writing-mode", {"wm": wm.value, "specified": d.value if d else None})


register(MergeHarness())
