"""C14 snapshot acceleration (cached vs uncached from_model) and purity of the source document."""
from __future__ import annotations

import z3

import ttconv.model as model
import ttconv.style_properties as styles
from ttconv.isd import ISD

from .. import docgen
from ..docgen import T, S
from ..symrun import And, Or, Not, zreal, call, SymNum
from ..runner import Harness, register
from .c02 import rendering, fingerprint

# (name, regions, body, initial values)
DOCS = [
  ("default-region", [], ["body", "", [["div", "", [["p", "b e", [S("A", "")]]]]]], []),
  ("one-region-content-window", [["r1", ""]], ["body", "b e", [["div", "r=r1", [["p", "b e", [S("A", "")]]]]]], []),
  ("bg-specified", [["r1", "bg=red b e"]], ["body", "", [["div", "r=r1", [["p", "b e", [S("A", "")]]]]]], []),
  ("bg-specified-two-regions", [["r1", "bg=red"], ["r2", "b e"]],
   ["body", "", [["div", "r=r1", [["p", "b e", [S("A", "")]]]], ["div", "r=r2", [["p", "b", [S("B", "")]]]]]], []),
  ("opacity-animated", [["r1", "bg=red op=0 aop=1"]], ["body", "", [["div", "r=r1", [["p", "b e", [S("A", "")]]]]]], []),
  ("bg-animated", [["r1", "abg=red"]], ["body", "", [["div", "r=r1", [["p", "b e", [S("A", "")]]]]]], []),
  ("bg-animated-two-regions", [["r1", "abg=red"], ["r2", ""]],
   ["body", "", [["div", "r=r1", [["p", "b", [S("A", "")]]]], ["div", "r=r2", [["p", "", [S("B", "e")]]]]]], []),
  ("show-background-animated", [["r1", "bg=red sb=whenActive asb=always"]],
   ["body", "", [["div", "r=r1", [["p", "b e", [S("A", "")]]]]]], []),
  ("visibility-animated", [["r1", "bg=red vis=hidden avis=visible"]],
   ["body", "", [["div", "r=r1", [["p", "b e", [S("A", "")]]]]]], []),
  ("bg-by-initial-value", [["r1", "b e"]], ["body", "", [["div", "r=r1", [["p", "b e", [S("A", "")]]]]]], [("bg", "red")]),
  ("bg-by-initial-value-two-regions", [["r1", ""], ["r2", "b"]],
   ["body", "", [["div", "r=r1", [["p", "b e", [S("A", "")]]]], ["div", "r=r2", [["p", "e", [S("B", "")]]]]]], [("bg", "red")]),
  ("three-regions", [["r1", "bg=red e"], ["r2", "b"], ["r3", "sb=whenActive bg=blue"]],
   ["body", "", [["div", "r=r1", [["p", "b", [S("A", "")]]]], ["div", "r=r3", [["p", "", [S("B", "e")]]]]]], []),
  ("no-body", [["r1", "bg=red b e"], ["r2", ""]], None, []),
]


def doc_fingerprint(doc):
  """deep identity of a source document: structure, timing, styles, steps, regions, initial values.
  Symbolic numbers are identified by their z3 term."""
  def num(x):
    if isinstance(x, SymNum):
      return ("sym", x.kind, x.z.sexpr())
    return x

  def el(e):
    return (type(e).__name__, e.get_id(), id(e), num(e.get_begin()), num(e.get_end()),
            e.get_region().get_id() if e.get_region() is not None else None,
            e.get_text() if isinstance(e, model.Text) else None,
            e.get_space() if not isinstance(e, model.Text) else None,
            e.get_lang() if not isinstance(e, model.Text) else None,
            tuple(sorted((p.__name__, repr(e.get_style(p))) for p in e.iter_styles())),
            tuple((s.style_property.__name__, num(s.begin), num(s.end), repr(s.value)) for s in e.iter_animation_steps()),
            id(e.parent()) if e.parent() is not None else None, id(e.get_doc()),
            tuple(el(c) for c in e))
  return (tuple(el(r) for r in doc.iter_regions()),
          el(doc.get_body()) if doc.get_body() is not None else None,
          tuple(sorted((p.__name__, repr(v)) for p, v in doc.iter_initial_values())),
          doc.get_lang(), doc.get_cell_resolution(), doc.get_px_resolution(), doc.get_active_area(),
          doc.get_display_aspect_ratio())


OPS = ["sig", "isd", "isd_cached", "seq"]


class CacheHarness(Harness):
  name = "c14_cache"
  quick_only_for = ("C18",)   # the deep tier runs under the harness's own property; the C18 roll-up reuses the quick partitions
  thorough_only_for = ("C18",)   # many paths, no reader/writer involved: C18 quick tier skips it
  properties = ("C14", "C18")
  functions = ("isd:ISD.from_model", "isd:ISD.significant_times", "isd:ISD.generate_isd_sequence",
               "isd:_clone_doc_with_one_region", "isd:ISD._region_always_has_background")
  assumptions = ("'renders identically' = equal trees, text and computed styles after dropping regions that have no "
                 "content and paint nothing (transparent or absent background colour, opacity 0, visibility hidden, or "
                 "showBackground=whenActive)",)
  outside = ("documents other than the listed skeletons; more than 3 regions",
             "interleavings longer than 3 calls (purity is an invariant of each call, so longer sequences add nothing "
             "unless state is kept outside the document, which the fingerprint of the SignificantTimes cache would not see)")
  required_witnesses = ("outside-content-interval", "inside-content-interval", "painted-empty-region")
  bounds = {"quick": "%d documents (0-3 regions; content before/inside/after the content interval; region background made "
                     "visible by specified style, by set animation with symbolic interval, by initial values), every time "
                     "rational, query time rational; purity: all sequences of <= 2 calls" % len(DOCS),
            "thorough": "same documents; purity: all sequences of <= 3 calls"}
  budget_s = {"quick": 240, "thorough": 1500}

  PURITY_DOCS = [0, 2, 5, 10, 12]

  def partitions(self, tier):
    import itertools
    out = [{"doc": i, "group": "equiv"} for i in range(len(DOCS))]
    depth = 2 if tier == "quick" else 3
    for i in self.PURITY_DOCS:
      for k in range(1, depth + 1):
        for seq in itertools.product(OPS, repeat=k):
          out.append({"doc": i, "group": "purity", "ops": list(seq)})
    return out

  def body(self, ex, params):
    name, regions, skel, initials = DOCS[params["doc"]]
    info = docgen.build(ex, skel, regions, initials)
    tags = sorted(info.tags | {name} | set(t for n in info.regions for t in n.tags))
    doc = info.doc
    if params["group"] == "equiv":
      sig, exc = call(ex, ISD.significant_times, doc)
      if exc:
        ex.fail("C18:significant-times-raises", {"site": exc[1], "exc": type(exc[0]).__name__, "tags": tags})
        return
      t = ex.real("t", 0)
      a, exc = call(ex, ISD.from_model, doc, t)
      if exc:
        ex.fail("C18:snapshot-raises", {"site": exc[1], "exc": type(exc[0]).__name__, "tags": tags})
        return
      b, exc = call(ex, ISD.from_model, doc, t, sig)
      if exc:
        ex.fail("C18:snapshot-raises", {"site": exc[1], "exc": type(exc[0]).__name__, "tags": tags, "cached": True})
        return
      if "C14" not in ex.active:
        return
      ra, rb = rendering(a), rendering(b)
      if len(list(b.iter_regions())) < len(list(a.iter_regions())):
        ex.witness("outside-content-interval")
      if any(r.has_children() for r in b.iter_regions()):
        ex.witness("inside-content-interval")
      if any(not r.has_children() for r in a.iter_regions()) and ra and any(not f[5] for f in ra):
        ex.witness("painted-empty-region")
      ex.prove(ra == rb, "C14:cached-equals-uncached", {"tags": tags})
      return
    # purity
    before = doc_fingerprint(doc)
    t = ex.real("t", 0)
    sig = None
    for op in params["ops"]:
      results = []
      for rep in range(2):
        if op == "sig":
          r, exc = call(ex, ISD.significant_times, doc)
          if not exc:
            sig = r
            r = tuple(zreal(x).sexpr() for x in r)
        elif op == "isd":
          r, exc = call(ex, ISD.from_model, doc, t)
          r = fingerprint(r) if not exc else None
        elif op == "isd_cached":
          if sig is None:
            sig, exc = call(ex, ISD.significant_times, doc)
          r, exc = call(ex, ISD.from_model, doc, t, sig)
          r = fingerprint(r) if not exc else None
        else:
          r, exc = call(ex, ISD.generate_isd_sequence, doc)
          r = tuple((zreal(s).sexpr(), fingerprint(i_)) for s, i_ in r) if not exc else None
        if exc:
          ex.fail("C18:isd-call-raises", {"site": exc[1], "exc": type(exc[0]).__name__, "tags": tags, "op": op})
          return
        results.append(r)
      if "C14" in ex.active:
        ex.prove(results[0] == results[1], "C14:repeatable", {"op": op, "tags": tags})
        ex.prove(doc_fingerprint(doc) == before, "C14:source-unchanged", {"op": op, "tags": tags})


register(CacheHarness())
