"""C10 SRT reader: exact rational times, cue structure and tag scoping, writer -> reader round trip."""
from __future__ import annotations

import itertools
import re
from fractions import Fraction

import z3

import ttconv.model as model
import ttconv.style_properties as styles
import ttconv.srt.reader as srt_reader
import ttconv.srt.writer as srt_writer
import ttconv.time_code as tc

from .. import symrun, holes, fpmode
from ..symrun import And, Or, Not, zreal, zint, RV, call
from ..runner import Harness, register, extra_check

SP = styles.StyleProperties


class Lines:
  """minimal text-file stand-in: the reader only calls readlines()"""

  def __init__(self, lines):
    self._lines = lines

  def readlines(self):
    return list(self._lines)


def exact_seconds(h, m, s, ms):
  return (zint(h) * 3600 + zint(m) * 60 + zint(s)) * 1000 + zint(ms)


class SrtTimesHarness(Harness):
  name = "c10_times"
  properties = ("C10", "C18")
  functions = ("srt.reader:to_model",)
  assumptions = ("the time-code regex of the reader matches text in which the digit fields are hole tokens (the regex is "
                 "checked to treat all digits alike); int() of a field is the symbolic field value",
                 "exact-rational mode: any int/int true division or other float operation on a symbolic field aborts the "
                 "path with FloatEncountered and the obligation is re-stated bit-precisely (c10_times_fp)")
  outside = ("hour fields of more than three digits (the reader's own pattern limits them to 2-3 digits)",)
  required_witnesses = ("cue-read",)
  bounds = {"quick": "one cue, every h in [0,999], m,s in [0,99], ms in [0,999] for begin and end (symbolic ints)", "thorough": "same"}
  budget_s = {"quick": 120, "thorough": 600}
  validate_models = 3

  def patches(self, params):
    pats = [(srt_reader, "_TIMECODE_RE", holes.HolePattern(srt_reader._TIMECODE_RE)), (srt_reader, "int", holes.hole_int)]
    if hasattr(srt_reader, "Fraction"):
      pats.append((srt_reader, "Fraction", symrun.sym_fraction))
    return pats

  def body(self, ex, params):
    f = {}
    for side in ("b", "e"):
      f[side] = (ex.integer(side + "_h", 0, 999), ex.integer(side + "_m", 0, 99), ex.integer(side + "_s", 0, 99), ex.integer(side + "_ms", 0, 999))
    if ex.symbolic:
      ex.strict_floats = True

    def fmt(h, m, s, ms):
      # two- or three-digit hours as the printed value requires
      return "%s:%s:%s,%s" % (format(h, "02d"), format(m, "02d"), format(s, "02d"), format(ms, "03d"))
    line = fmt(*f["b"]) + " --> " + fmt(*f["e"]) + "\n"
    try:
      doc, exc = call(ex, srt_reader.to_model, Lines(["1\n", line, "hello\n", "\n"]))
    except symrun.FloatEncountered:
      ex.outcome("float-encountered")
      ex.fail("C10:times-exact", {"reason": "the reader computes cue times through binary floating point", "mode": "exact-rational"})
      return
    if exc:
      ex.fail("C18:srt-reader-raises", {"site": exc[1], "exc": type(exc[0]).__name__})
      return
    if doc is None:
      ex.fail("C10:cue-read", {"reason": "reader returned nothing for a well-formed cue"})
      return
    ps = [e for e in doc.get_body().dfs_iterator() if isinstance(e, model.P)]
    ex.prove(len(ps) == 1, "C10:cue-read", {"paragraphs": len(ps)})
    if len(ps) != 1:
      return
    ex.witness("cue-read")
    p = ps[0]
    for side, got in (("b", p.get_begin()), ("e", p.get_end())):
      ok_type = isinstance(got, (Fraction, int)) or (isinstance(got, symrun.SymNum) and got.kind in ("q", "i"))
      ex.prove(ok_type, "C10:times-exact", {"reason": "time is not an exact rational", "type": type(got).__name__ if not isinstance(got, symrun.SymNum) else "float"})
      if ok_type or ex.symbolic:
        ex.prove(zreal(got) * 1000 == z3.ToReal(exact_seconds(*f[side])), "C10:times-exact", {"side": side})


register(SrtTimesHarness())


class _FakeMatch:
  def __init__(self, fields):
    self.fields = fields

  def group(self, name):
    return self.fields[name]


class _FakeRe:
  def __init__(self, fields):
    self.fields = fields

  def search(self, line):
    return _FakeMatch(self.fields) if "-->" in line else None


@extra_check("C10")
def c10_times_fp(tier):
  """bit-precise restatement: the value the reader stores equals (3600h+60m+s) + ms/1000 as a rational"""
  import time
  t0 = time.time()
  out = {"name": "c10_times_fp", "obligations": 0, "queries": 0, "solver_s": 0.0, "violations": [], "samples": [], "validated": 0,
         "functions": ["srt.reader:to_model"],
         "assumptions": ["z3 QF_BVFP semantics of IEEE-754 binary64 equal CPython float semantics",
                         "the time-code regex is replaced by a stub whose groups are 64-bit symbolic integers in the field ranges"]}
  names = ["begin_h", "begin_m", "begin_s", "begin_ms", "end_h", "end_m", "end_s", "end_ms"]
  rng = {"h": 999, "m": 99, "s": 99, "ms": 999}
  bvs = {n: z3.BitVec(n, 64) for n in names}
  fields = {n: fpmode.FPInt(bvs[n], rng[n.split("_")[1]]) for n in names}
  cons = [z3.And(bvs[n] >= 0, bvs[n] <= rng[n.split("_")[1]]) for n in names]
  pats = [(srt_reader, "_TIMECODE_RE", _FakeRe(fields)), (srt_reader, "int", fpmode.fp_int)]
  if hasattr(srt_reader, "Fraction"):
    pats.append((srt_reader, "Fraction", fpmode.fp_fraction))
  try:
    with symrun.patched(*pats):
      doc = srt_reader.to_model(Lines(["1\n", "00:00:00,000 --> 00:00:00,000\n", "hello\n", "\n"]))
    p = [e for e in doc.get_body().dfs_iterator() if isinstance(e, model.P)][0]
    for side, got in (("begin", p.get_begin()), ("end", p.get_end())):
      num = ((bvs[side + "_h"] * 3600 + bvs[side + "_m"] * 60 + bvs[side + "_s"]) * 1000 + bvs[side + "_ms"])
      eq = fpmode.equals_rational(got, num, 1000, 10 ** 10)
      r, m = fpmode.solve(cons + [z3.Not(eq)], 300)
      out["obligations"] += 1
      out["queries"] += 1
      if r == "sat":
        vals = {n: m.eval(bvs[n], model_completion=True).as_signed_long() for n in names if n.startswith(side)}
        text = "%02d:%02d:%02d,%03d" % tuple(vals[side + "_" + k] for k in ("h", "m", "s", "ms"))
        d = srt_reader.to_model(Lines(["1\n", "%s --> %s\n" % (text, text), "x\n", "\n"]))
        gp = [e for e in d.get_body().dfs_iterator() if isinstance(e, model.P)][0]
        exact = Fraction(((vals[side + "_h"] * 60 + vals[side + "_m"]) * 60 + vals[side + "_s"]) * 1000 + vals[side + "_ms"], 1000)
        native = gp.get_begin()
        rep = not (isinstance(native, (Fraction, int)) and native == exact) and Fraction(native) != exact
        out["violations"].append({"assertion": "C10:times-exact", "model": vals, "reproduced": rep,
                                  "detail": {"side": side, "mode": "exact-fp", "_printed": text, "_stored": repr(native)}})
      elif r == "unsat":
        out["validated"] += 1
      else:
        out["error"] = "undecided: %s" % m
      out["samples"].append({"query": "exists fields: stored %s time != printed rational" % side, "result": r})
  except symrun.HarnessError as e:
    out["error"] = "harness error: %s" % e
  out["solver_s"] = round(time.time() - t0, 2)
  return out


# ---------------------------------------------------------------------------
# cue structure and tags (selector-enumerated: no numeric symbol is involved)

TEXT_LINES = [
  "plain",
  "<b>bold</b> rest",
  "<i>it",
  "alic</i> x",
  "{b}x{/b}",
  "{bold}y{/bold}",
  '<font color="#ff0000">r</font>',
  "<u>u</u>{i}v{/i}",
  "a </b> b",
  "<b><i>n</i></b>",
  "{underline}w{/underline} {u}z{/u}",
  '<font color="#00ff0000">t</font><font color="blue">n</font>',
  '<font color="red">a<font color="#ffffff">w</font>b</font>',
  '<font color="blue"><b>k<font color="white">w</font></b></font>',
  '<font color>v</font> <font>w</font>',
]

_TOKEN = re.compile(r"<(/?)(b|i|u|bold|italic|underline|font)(?: color(?:=\"([^\"]*)\")?)?>|\{(/?)(b|i|u|bold|italic|underline)\}", re.I)
_CANON = {"b": "b", "bold": "b", "i": "i", "italic": "i", "u": "u", "underline": "u", "font": "font"}


def reference_cue(text):
  """stack-based scoper written from the SubRip conventions: returns [(char | '\\n', frozenset(styles))]"""
  out = []
  stack = []
  pos = 0
  reference_cue.ill_nested = False
  for m in _TOKEN.finditer(text):
    for ch in text[pos:m.start()]:
      out.append((ch, _eff(stack)))
    pos = m.end()
    closing = m.group(1) if m.group(2) else m.group(4)
    name = _CANON[(m.group(2) or m.group(5)).lower()]
    if closing:
      # properly nested input: the end tag closes the innermost open element.  An end tag that does not match it
      # (or has nothing to close) has no defined scope: the cue is marked ill-nested and only its text is asserted
      if stack and stack[-1][0] == name:
        stack.pop()
      else:
        reference_cue.ill_nested = True
    else:
      col = None
      if name == "font" and m.group(3):
        v = m.group(3).lower()
        named = {"blue": "#0000ffff", "red": "#ff0000ff", "white": "#ffffffff"}
        col = named.get(v, v if len(v) == 9 else v + "ff")
      stack.append((name, col))
  for ch in text[pos:]:
    out.append((ch, _eff(stack)))
  return out


def _eff(stack):
  """bold/italic/underline flags plus the colour in effect: the innermost font element's"""
  fonts = [x for x in stack if x[0] == "font" and x[1] is not None]
  return frozenset([x for x in stack if x[0] != "font"] + fonts[-1:])


def observed_paragraph(p):
  out = []

  def rec(e, st):
    st = set(st)
    if isinstance(e, model.Span):
      if e.get_style(SP.FontWeight) is styles.FontWeightType.bold:
        st.add(("b", None))
      if e.get_style(SP.FontStyle) is styles.FontStyleType.italic:
        st.add(("i", None))
      td = e.get_style(SP.TextDecoration)
      if td is not None and td.underline:
        st.add(("u", None))
      c = e.get_style(SP.Color)
      if c is not None:
        st = set(x for x in st if x[0] != "font")     # a colour on a span overrides the inherited one
        st.add(("font", "#%02x%02x%02x%02x" % tuple(c.components)))
    if isinstance(e, model.Text):
      for ch in e.get_text():
        out.append((ch, frozenset(st)))
    elif isinstance(e, model.Br):
      out.append(("\n", frozenset()))
    for c in e:
      rec(c, st)
  rec(p, set())
  return out


class SrtStructureHarness(Harness):
  name = "c10_structure"
  properties = ("C10", "C18")
  functions = ("srt.reader:to_model", "srt.reader:_TextParser.handle_starttag", "srt.reader:_TextParser.handle_endtag",
               "srt.reader:_TextParser.handle_data")
  assumptions = ("file contents are selected by solver-decided selector variables from the line menu (no numeric symbol: a "
                 "solver-scheduled exhaustive enumeration of the bounded grammar)",)
  outside = ("files with more than 2 cues or more than 2 text lines per cue; text lines outside the 15-entry menu",)
  required_witnesses = ("two-cues", "crlf", "tags", "cue-without-text")
  bounds = {"quick": "files of 1-2 cues: 0-1 leading blank lines, counter, time code, 0-2 text lines from an 15-entry menu (both tag "
                     "syntaxes, nested, multi-line, stray end tag), 1-2 blank lines or EOF, LF or CRLF line ends",
            "thorough": "same with up to 3 text lines in the first cue"}
  budget_s = {"quick": 200, "thorough": 900}
  validate_models = 2

  def partitions(self, tier):
    return [{"crlf": c, "first": i} for c in (0, 1) for i in range(len(TEXT_LINES) + 1)]

  def body(self, ex, params):
    eol = "\r\n" if params["crlf"] else "\n"
    if params["crlf"]:
      ex.witness("crlf")
    n1max = 2 if ex.tier == "quick" else 3
    lines = []
    cues = []
    if ex.boolean("leading_blank"):
      lines.append(eol)
    # cue 1
    t1 = []
    if params["first"] < len(TEXT_LINES):
      t1.append(TEXT_LINES[params["first"]])
      for k in range(1, n1max):
        c = ex.choice("c1_line%d" % k, len(TEXT_LINES) + 1)
        if c == len(TEXT_LINES):
          break
        t1.append(TEXT_LINES[c])
    lines += ["1" + eol, "00:00:01,001 --> 00:00:24,317" + eol] + [t + eol for t in t1]
    cues.append((Fraction(1001, 1000), Fraction(24317, 1000), t1))
    two = ex.boolean("second_cue")
    if two:
      ex.witness("two-cues")
      lines += [eol] * (1 + ex.choice("gap", 2))
      c = ex.choice("c2_line", 4)
      t2 = [TEXT_LINES[[0, 1, 8, 9][c]]]
      lines += ["2" + eol, "100:00:03,000 --> 100:00:04,000" + eol] + [t + eol for t in t2]
      cues.append((Fraction(360003), Fraction(360004), t2))
    if ex.boolean("trailing_blank"):
      lines.append(eol)
    if not t1:
      ex.witness("cue-without-text")
    doc, exc = call(ex, srt_reader.to_model, Lines(lines))
    shape = {"crlf": bool(params["crlf"]), "first_cue_lines": len(t1), "stray_end_tag": any("a </b> b" in t for _, _, ts in cues for t in ts)}
    if exc:
      if not isinstance(exc[0], ValueError):
        ex.fail("C18:srt-reader-raises", dict(shape, site=exc[1], exc=type(exc[0]).__name__))
        if "C10" in ex.active:
          ex.fail("C10:reader-fails", dict(shape, site=exc[1], exc=type(exc[0]).__name__))
      return
    if "C10" not in ex.active:
      return
    if doc is None:
      ex.fail("C10:reader-fails", dict(shape, reason="returned nothing"))
      return
    ps = [e for e in doc.get_body().dfs_iterator() if isinstance(e, model.P)]
    want = [c for c in cues if c[2]]
    ex.prove(len(ps) == len(want), "C10:one-paragraph-per-cue", dict(shape, got=len(ps), want=len(want)))
    if len(ps) != len(want):
      return
    for p, (b, e, ts) in zip(ps, want):
      ex.prove(isinstance(p.get_begin(), (Fraction, int)) and p.get_begin() == b and p.get_end() == e, "C10:cue-times", shape)
      exp = reference_cue("\n".join(ts))
      ill = reference_cue.ill_nested
      got = observed_paragraph(p)
      if any(st for _, st in exp):
        ex.witness("tags")
      gt = "".join(ch for ch, _ in got)
      et = "".join(ch for ch, _ in exp)
      syntax = "brace-short" if re.search(r"\{/?[biu]\}", "\n".join(ts), re.I) else "other"
      ex.prove(gt == et, "C10:cue-text", dict(shape, _got=gt[:30], _want=et[:30], syntax=syntax))
      if gt == et and not ill:
        bad = [(ch, sorted(a), sorted(b2)) for (ch, a), (_, b2) in zip(got, exp) if a != b2 and ch != "\n"]
        ex.prove(not bad, "C10:tag-scope", dict(shape, _first=str(bad[:1])[:80]))


register(SrtStructureHarness())


class SrtRoundTripHarness(Harness):
  name = "c10_roundtrip"
  properties = ("C10", "C18")
  functions = ("srt.writer:from_model", "srt.reader:to_model")
  assumptions = ("writer output with hole tokens is fed to the reader whose time-code regex and int() are hole-aware",
                 "ClockTime.from_seconds contract from C12 (as in C06)")
  outside = ("documents other than the C06 skeletons 0-3, 5",)
  required_witnesses = ("cues-reread",)
  bounds = {"quick": "C06 documents 0,1,2,3,5 with symbolic times, SRT text_formatting on", "thorough": "same"}
  budget_s = {"quick": 200, "thorough": 900}

  DOCS = (0, 1, 2, 3, 5)

  def partitions(self, tier):
    return [{"doc": d} for d in self.DOCS]

  def patches(self, params):
    from .c06 import WritersHarness
    pats = WritersHarness().patches({})
    pats += [(srt_reader, "_TIMECODE_RE", holes.HolePattern(srt_reader._TIMECODE_RE)), (srt_reader, "int", holes.hole_int)]
    if hasattr(srt_reader, "Fraction"):
      pats.append((srt_reader, "Fraction", symrun.sym_fraction))
    return pats

  def body(self, ex, params):
    from .c06 import DOCS, WritersHarness
    from .. import docgen, rcue
    from ttconv.srt.config import SRTWriterConfiguration
    name, regions, skel = DOCS[params["doc"]]
    wh = WritersHarness()
    info = docgen.build(ex, skel, wh._regions(regions))
    for v in info.time_syms:
      ex.assume(zreal(v) <= 1000)
    out, exc = call(ex, srt_writer.from_model, info.doc, SRTWriterConfiguration())
    if exc:
      return  # sub-millisecond intervals: C07's finding
    try:
      cues = rcue.parse_srt(ex, out)
    except rcue.Ungrammatical:
      return
    lines = [l + "\n" for l in out.split("\n")]
    doc, exc = call(ex, srt_reader.to_model, Lines(lines))
    if exc:
      ex.fail("C18:srt-reader-raises", {"site": exc[1], "exc": type(exc[0]).__name__, "roundtrip": True})
      return
    if doc is None:
      ex.prove(not cues, "C10:rereads-own-output", {"reason": "reader returned nothing", "doc": name})
      return
    ps = [e for e in doc.get_body().dfs_iterator() if isinstance(e, model.P)]
    ex.prove(len(ps) == len(cues), "C10:rereads-own-output", {"got": len(ps), "want": len(cues), "doc": name})
    for p, c in zip(ps, cues):
      ex.witness("cues-reread")
      ex.prove(And(zreal(p.get_begin()) * 1000 == z3.ToReal(c.begin), zreal(p.get_end()) * 1000 == z3.ToReal(c.end)),
               "C10:rereads-own-output", {"what": "times", "doc": name})
      plain, _ = rcue.scope_tags(c.payload, False)
      got = "".join(ch for ch, _ in observed_paragraph(p))
      ex.prove(got == plain, "C10:rereads-own-output", {"what": "text", "doc": name})


register(SrtRoundTripHarness())
