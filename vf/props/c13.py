"""C13 ISD shape: structural assertions evaluated on every snapshot produced by the C01/C02/C03 harnesses,
plus the white-space harness (R-LWSP)."""
from __future__ import annotations

import numbers

import ttconv.model as model
import ttconv.style_properties as styles
from ttconv.isd import ISD

from .. import docgen
from ..docgen import T
from ..symrun import call
from ..runner import Harness, register

SP = styles.StyleProperties

CONTENT_MODEL = {
  model.Body: (model.Div,), model.Div: (model.Div, model.P), model.P: (model.Span, model.Br, model.Ruby),
  model.Span: (model.Span, model.Br, model.Text), model.Rb: (model.Span,), model.Rt: (model.Span,),
  model.Rp: (model.Span,), model.Rbc: (model.Rb,), model.Br: (), model.Text: (),
}


def _ruby_ok(kids):
  k = [type(c) for c in kids]
  return k in ([model.Rb, model.Rt], [model.Rb, model.Rp, model.Rt, model.Rp], [model.Rbc, model.Rtc],
               [model.Rbc, model.Rtc, model.Rtc])


def _rtc_ok(kids):
  k = [type(c) for c in kids]
  if k and k[0] is model.Rp:
    return len(k) >= 3 and k[-1] is model.Rp and all(x is model.Rt for x in k[1:-1])
  return len(k) >= 1 and all(x is model.Rt for x in k)


def _lengths(v, out):
  """collect every LengthType reachable from a style value"""
  if isinstance(v, styles.LengthType):
    out.append(v)
  elif isinstance(v, (tuple, list)):
    for x in v:
      _lengths(x, out)
  elif hasattr(v, "__dataclass_fields__"):
    for f in v.__dataclass_fields__:
      _lengths(getattr(v, f), out)


def shape_assertions(ex, info, isd, src_doc=None):
  P = "C13:"
  doc = src_doc or info.doc
  ex.prove(isd.get_lang() == doc.get_lang() and isd.get_cell_resolution() == doc.get_cell_resolution()
           and isd.get_px_resolution() == doc.get_px_resolution() and isd.get_active_area() == doc.get_active_area()
           and isd.get_display_aspect_ratio() == doc.get_display_aspect_ratio(), P + "document-parameters")
  src_elems = set(id(e) for e in doc.get_body().dfs_iterator()) if doc.get_body() is not None else set()
  src_elems |= set(id(r) for r in doc.iter_regions())
  for region in isd.iter_regions():
    ex.prove(isinstance(region, ISD.Region), P + "region-type")
    kids = list(region)
    ex.prove(len(kids) <= 1 and all(isinstance(k, model.Body) for k in kids), P + "region-one-body")
    if not kids:
      ex.prove(region.get_style(SP.ShowBackground) is styles.ShowBackgroundType.always, P + "empty-region-only-if-always")
      ex.witness("empty-region")
    for e in region.dfs_iterator():
      kind = type(e).__name__
      ex.prove(id(e) not in src_elems, P + "owned-by-snapshot", {"kind": kind})
      ex.prove(e.get_doc() is isd, P + "owned-by-snapshot", {"kind": kind})
      ex.prove(e.get_begin() is None and e.get_end() is None, P + "no-timing", {"kind": kind})
      ex.prove(not list(e.iter_animation_steps()), P + "no-animation", {"kind": kind})
      ex.prove(e.get_region() is None, P + "no-region-ref", {"kind": kind})
      ch = list(e)
      if isinstance(e, model.Ruby):
        ex.prove(_ruby_ok(ch), P + "content-model", {"kind": kind})
      elif isinstance(e, model.Rtc):
        ex.prove(_rtc_ok(ch), P + "content-model", {"kind": kind})
      elif isinstance(e, ISD.Region):
        pass
      else:
        allowed = CONTENT_MODEL[type(e)]
        ex.prove(all(isinstance(c, allowed) for c in ch), P + "content-model", {"kind": kind})
      present = set(e.iter_styles())
      applicable = set(p for p in SP.ALL if e.is_style_applicable(p))
      if isinstance(e, (model.Br, model.Text)):
        ex.prove(present <= applicable, P + "only-applicable-styles", {"kind": kind, "extra": sorted(p.__name__ for p in present - applicable)})
      else:
        ex.prove(present <= applicable, P + "only-applicable-styles", {"kind": kind, "extra": sorted(p.__name__ for p in present - applicable)})
        ex.prove(applicable <= present, P + "all-applicable-styles", {"kind": kind, "missing": sorted(p.__name__ for p in applicable - present)})
      for p in present:
        ls = []
        _lengths(e.get_style(p), ls)
        bad = [l for l in ls if l.units not in (styles.LengthType.Units.rh, styles.LengthType.Units.rw)]
        ex.prove(not bad, P + "lengths-root-relative", {"prop": p.__name__, "kind": kind, "units": sorted(set(l.units.value for l in bad))})
      if e.has_style(SP.Display):
        ex.prove(e.get_style(SP.Display) is not styles.DisplayType.none, P + "no-display-none", {"kind": kind})
      if isinstance(e, ISD.Region):
        o, pz = e.get_style(SP.Origin), e.get_style(SP.Position)
        if o is not None and pz is not None:
          from ..symrun import zreal, And
          ex.prove(And(zreal(o.x.value) == zreal(pz.h_offset.value), zreal(o.y.value) == zreal(pz.v_offset.value)),
                   P + "origin-equals-position")
          ex.prove(o.x.units is pz.h_offset.units and o.y.units is pz.v_offset.units, P + "origin-equals-position")
        else:
          ex.fail(P + "origin-equals-position", {"origin": str(o), "position": str(pz)})
      if isinstance(e, model.Text):
        ex.prove(len(e.get_text()) > 0, P + "no-empty-text")
      if isinstance(e, model.Span):
        ex.prove(e.has_children(), P + "no-childless-span")
    ex.witness("region-checked")


# ---------------------------------------------------------------------------
# white space (R-LWSP)

WS = "\t\r\n "


def lwsp_reference(leaves):
  """leaves: [("text", string, mode) | ("br",)] of one paragraph in document order (ruby annotations excluded).
  Returns the expected string per leaf (None for br, "" when the node disappears).
  Default mode (TTML2 §8.? xml:space=default via XSL-FO: linefeed-treatment=treat-as-space, white-space-collapse=true,
  suppress-at-line-break): every maximal run of white space collapses to one space, also across node boundaries;
  a space at the start of a line (paragraph start, after br) or at its end (paragraph end, before br) is removed.
  Preserve mode: untouched."""
  out = [[] for _ in leaves]
  last_default_space = None   # (leaf index) of a pending trailing default-mode space
  prev_ws = True              # at line start
  for i, lf in enumerate(leaves):
    if lf[0] == "br":
      if last_default_space is not None:
        out[last_default_space].pop()
      last_default_space = None
      prev_ws = True
      continue
    _, s, mode = lf
    if mode == "preserve":
      out[i] = list(s)
      if s:
        prev_ws = s[-1] in WS
        last_default_space = None
      continue
    for c in s:
      if c in WS:
        if prev_ws:
          continue
        out[i].append(" ")
        prev_ws = True
        last_default_space = i
      else:
        out[i].append(c)
        prev_ws = False
        last_default_space = None
  if last_default_space is not None:
    out[last_default_space].pop()
  return [None if lf[0] == "br" else "".join(o) for lf, o in zip(leaves, out)]


ALPHA_Q = ["a", " ", "\n"]
ALPHA_T = ["a", " ", "\n", "\t", "\r"]


def strings(alpha, maxlen):
  out = [""]
  cur = [""]
  for _ in range(maxlen):
    cur = [s + c for s in cur for c in alpha]
    out += cur
  return out


# paragraph shapes: list of items; "T" = text in its own span, "B" = br, ("N", k) nested span with k texts
SHAPES = [
  ("two-spans", ["T", "T"]),
  ("span-br-span", ["T", "B", "T"]),
  ("three-spans", ["T", "T", "T"]),
  ("nested", ["T", "N"]),
  ("br-first-last", ["B", "T", "B"]),
  ("one-span-two-texts", ["D"]),
]


class LwspHarness(Harness):
  name = "c13_lwsp"
  thorough_only_for = ("C18",)   # many paths, no reader/writer involved: C18 quick tier skips it
  properties = ("C13", "C18")
  functions = ("isd:_process_lwsp", "isd:_construct_text_list", "isd:_prune_empty_spans")
  assumptions = ("text content is selected by solver-decided selector variables from the finite string menu (no numeric "
                 "symbol is involved in white-space handling, so this harness is a solver-scheduled exhaustive enumeration)",)
  outside = ("strings longer than the bound; characters other than a, space, LF (quick) plus TAB, CR (thorough)",
             "interaction of a default-mode node adjacent to a preserve-mode node (XSL-FO leaves it to the formatter): "
             "only the preserve node's content is asserted there")
  required_witnesses = ("collapsed", "leading-dropped", "trailing-dropped", "node-removed", "preserved")
  bounds = {"quick": "6 paragraph shapes x every text of length <= 2 over {a,space,LF} per node (<= 3 nodes) x default/preserve per node",
            "thorough": "same shapes, length <= 3 (2-node shapes) / <= 2 (3-node shapes) over {a,space,LF,TAB,CR}"}
  budget_s = {"quick": 240, "thorough": 1500}
  validate_models = 2

  def partitions(self, tier):
    parts = []
    for si in range(len(SHAPES)):
      for mode in range(4):
        parts.append({"shape": si, "modes": mode})
    return parts

  def body(self, ex, params):
    name, shape = SHAPES[params["shape"]]
    modes = params["modes"]  # bit0: first text preserve, bit1: others preserve
    ntext = sum(1 for s in shape if s == "T") + 2 * sum(1 for s in shape if s in ("N", "D"))
    if ex.tier == "thorough":
      alpha, maxlen = ALPHA_T, (3 if ntext <= 2 else 2)
    else:
      alpha, maxlen = ALPHA_Q, 2
    menu = strings(alpha, maxlen)
    kids = []
    leaves = []
    k = 0

    def text(preserve):
      nonlocal k
      s = menu[ex.choice("text%d" % k, len(menu))]
      k += 1
      leaves.append(("text", s, "preserve" if preserve else "default"))
      return T(s)

    for item in shape:
      pres = bool(modes & 1) if k == 0 else bool(modes & 2)
      if item == "T":
        kids.append(["span", "sp" if pres else "sd", [text(pres)]])
      elif item == "B":
        kids.append(["br", ""])
        leaves.append(("br",))
      elif item == "N":
        inner_pres = bool(modes & 2)
        t1 = text(pres)
        t2 = text(inner_pres)
        kids.append(["span", "sp" if pres else "sd", [t1, ["span", "sp" if inner_pres else "sd", [t2]]]])
      elif item == "D":
        t1 = text(pres)
        leaves.append(("br",))
        t2 = text(pres)
        kids.append(["span", "sp" if pres else "sd", [t1, ["br", ""], t2]])
    skel = ["body", "", [["div", "", [["p", "", kids]]]]]
    info = docgen.build(ex, skel, [])
    isd, exc = call(ex, ISD.from_model, info.doc, 0)
    if exc:
      ex.fail("C18:snapshot-raises", {"site": exc[1], "exc": type(exc[0]).__name__, "tags": ["lwsp"]})
      return
    if "C13" not in ex.active:
      return
    expected = lwsp_reference(leaves)
    # observed: text leaves of the snapshot in order; removed nodes are absent
    obs = []
    for r in isd.iter_regions():
      for e in r.dfs_iterator():
        if isinstance(e, model.Text):
          obs.append(("text", e.get_text()))
        elif isinstance(e, model.Br):
          obs.append(("br",))
        elif isinstance(e, model.Span):
          ex.prove(e.has_children(), "C13:no-childless-span")
    mixed = len(set(l[2] for l in leaves if l[0] == "text")) > 1
    exp_seq = []
    for lf, e in zip(leaves, expected):
      if lf[0] == "br":
        exp_seq.append(("br",))
      elif e != "":
        exp_seq.append(("text", e))
    if not mixed:
      ex.prove(obs == exp_seq, "C13:white-space", {"shape": name, "mode": leaves and [l[2] for l in leaves if l[0] == "text"][0]})
    else:
      # only the preserve nodes' content is asserted
      pres_exp = [l[1] for l in leaves if l[0] == "text" and l[2] == "preserve" and l[1] != ""]
      texts = [o[1] for o in obs if o[0] == "text"]
      it = iter(texts)
      ex.prove(all(any(x == p for x in it) for p in pres_exp), "C13:white-space-preserve", {"shape": name})
    ex.prove(all(o[0] != "text" or o[1] != "" for o in obs), "C13:no-empty-text")
    if not mixed and leaves:
      raw = [l[1] for l in leaves if l[0] == "text"]
      new = [e for l, e in zip(leaves, expected) if l[0] == "text"]
      if any(len(a) - len(b) >= 2 or ("  " in a and "  " not in b) for a, b in zip(raw, new)):
        ex.witness("collapsed")
      if any(a[:1] in WS and a[:1] != "" and not b.startswith(" ") for a, b in zip(raw, new) if a):
        ex.witness("leading-dropped")
      if any(a and a[-1] in WS and not b.endswith(" ") for a, b in zip(raw, new)):
        ex.witness("trailing-dropped")
      if any(a != "" and b == "" for a, b in zip(raw, new)):
        ex.witness("node-removed")
      if any(l[2] == "preserve" and l[1] and l[1][0] in WS for l in leaves if l[0] == "text"):
        ex.witness("preserved")


register(LwspHarness())
