"""C19 `tt convert`: the dispatcher composes reader, filters and writer as the library would; configuration decoders
accept exactly the documented values.  I/O and the format modules are replaced by recording stubs; the options are
solver-decided selectors; configuration numbers are symbolic integers."""
from __future__ import annotations

import io
import json
import types
from fractions import Fraction

import z3

import ttconv.tt as tt
import ttconv.model as model
import ttconv.style_properties as styles
from ttconv.filters.doc.lcd import LCDDocFilterConfig, LCDDocFilter
from ttconv.imsc.config import IMSCWriterConfiguration
from ttconv.scc.config import SccReaderConfiguration, TextAlignment
from ttconv.stl.config import STLReaderConfiguration
from ttconv.srt.config import SRTWriterConfiguration
from ttconv.vtt.config import VTTWriterConfiguration
from ttconv.config import GeneralConfiguration

from .. import symrun
from ..symrun import And, Or, Not, zint, call
from ..runner import Harness, register

TYPES = [None, "ttml", "TTML", "scc", "Stl", "srt", "VTT", "xyz"]
EXTS = [".ttml", ".TtMl", ".scc", ".STL", ".srt", ".vtt", ".xyz", ""]
READERS = {"ttml", "scc", "stl", "srt", "vtt"}
WRITERS = {"ttml", "srt", "vtt"}
FILTERS = [[], ["lcd"], ["lcd", "lcd"], ["nope", "lcd"]]
CONFIGS = [
  None,
  {"general": {"document_lang": "fr", "progress_bar": False, "log_level": "WARN"}},
  {"lcd": {"safe_area": 5, "color": "#ff0000"}, "imsc_writer": {"time_format": "frames", "fps": "25/1"},
   "srt_writer": {"text_formatting": False}, "vtt_writer": {"line_position": True}, "scc_reader": {"text_align": "left"},
   "stl_reader": {"max_row_count": 23}},
]
FILE_CONFIG = {"general": {"document_lang": "de"}, "lcd": {"safe_area": 7}, "srt_writer": {"text_formatting": True}}


class Recorder:
  def __init__(self):
    self.trace = []
    self.files = {}
    self.written = []


def reference(itype, iext, otype, oext, filters, cfg, file_cfg):
  """expected call trace written from the documented behaviour of `tt convert`"""
  def ftype(t, ext):
    if t is not None:
      return t.lower()
    e = ext[1:] if ext.startswith(".") else ext
    return e.lower()
  rt, wt = ftype(itype, iext), ftype(otype, oext)
  if rt not in READERS | {"ttml"} or wt not in READERS:   # not a known file type at all
    return None
  conf = file_cfg if file_cfg is not None else cfg    # the configuration file takes precedence
  trace = []
  rc = None
  if rt == "scc" and conf and "scc_reader" in conf:
    rc = ("scc_reader", json.dumps(conf["scc_reader"], sort_keys=True))
  if rt == "stl" and conf and "stl_reader" in conf:
    rc = ("stl_reader", json.dumps(conf["stl_reader"], sort_keys=True))
  trace.append(("read", rt, rc))
  if conf and conf.get("general", {}).get("document_lang") is not None:
    trace.append(("lang", conf["general"]["document_lang"]))
  for f in filters:
    if f == "lcd":
      trace.append(("filter", "lcd", json.dumps((conf or {}).get("lcd"), sort_keys=True)))
  if wt not in WRITERS:
    trace.append(("exit",))
    return trace
  key = {"ttml": "imsc_writer", "srt": "srt_writer", "vtt": "vtt_writer"}[wt]
  trace.append(("write", wt, json.dumps((conf or {}).get(key), sort_keys=True)))
  trace.append(("output", "out" + oext))
  return trace


def cfg_repr(c):
  """normalise a parsed configuration object back to the JSON it came from (only the keys used in CONFIGS)"""
  if c is None:
    return None
  if isinstance(c, LCDDocFilterConfig):
    d = {}
    if c.safe_area != 10:
      d["safe_area"] = c.safe_area
    if c.color is not None:
      d["color"] = "#%02x%02x%02x" % tuple(c.color.components[:3])
    return d or None
  if isinstance(c, IMSCWriterConfiguration):
    d = {}
    if c.time_format is not None:
      d["time_format"] = c.time_format.value
    if c.fps is not None:
      d["fps"] = "%d/%d" % (c.fps.numerator, c.fps.denominator)
    return d or None
  if isinstance(c, SRTWriterConfiguration):
    return {"text_formatting": c.text_formatting}
  if isinstance(c, VTTWriterConfiguration):
    return {"line_position": True} if c.line_position else {}
  if isinstance(c, SccReaderConfiguration):
    return {"text_align": c.text_align.label}
  if isinstance(c, STLReaderConfiguration):
    return {"max_row_count": c.max_row_count}
  return repr(c)


class DispatchHarness(Harness):
  name = "c19_dispatch"
  properties = ("C19", "C18")
  functions = ("tt:convert", "tt:FileTypes.get_file_type", "tt:read_config_from_json", "config:ModuleConfiguration.parse")
  assumptions = ("readers, writers, et.parse, Path.read_text and open are recording stubs: the claim is about the composition "
                 "(which stage runs, in which order, with which parsed configuration, which file is written), so byte identity "
                 "with the library pipeline follows if the stages are deterministic functions of their arguments",
                 "options are selector variables decided by the solver (exhaustive over the menus)")
  outside = ("hash-seed independence, independence from earlier conversions in the same interpreter, log/progress settings not "
             "affecting bytes: relations over operating-system processes, not over values a solver ranges over",)
  required_witnesses = ("inferred-from-extension", "config-file-wins", "unsupported-type", "lang-override", "filter-applied")
  bounds = {"quick": "itype/otype x 8 values, input/output extension x 8 values (mixed case), 4 filter lists, 3 inline configs x "
                     "config file present/absent", "thorough": "same"}
  budget_s = {"quick": 200, "thorough": 600}
  validate_models = 2

  def partitions(self, tier):
    return [{"itype": i, "otype": o} for i in range(len(TYPES)) for o in range(len(TYPES))]

  def body(self, ex, params):
    itype, otype = TYPES[params["itype"]], TYPES[params["otype"]]
    iext = EXTS[ex.choice("iext", len(EXTS))] if itype is None else EXTS[ex.choice("iext", 2) * 6]
    oext = EXTS[ex.choice("oext", len(EXTS))] if otype is None else EXTS[ex.choice("oext", 2) * 6]
    filters = FILTERS[ex.choice("filters", len(FILTERS))]
    cfg = CONFIGS[ex.choice("config", len(CONFIGS))]
    use_file = ex.boolean("config_file")
    rec = Recorder()
    doc = model.ContentDocument()

    def reader(kind):
      def f(*a, **k):
        conf = a[1] if len(a) > 1 and not callable(a[1]) else None
        rec.trace.append(("read", kind, None if conf is None else (conf.name(), json.dumps(cfg_repr(conf), sort_keys=True))))
        return doc
      return f

    class FakeTree:
      def write(self, path, encoding=None):
        rec.written.append(path)
        rec.trace.append(("output", path))

    def writer(kind):
      def f(m, conf=None, cb=None):
        rec.trace.append(("write", kind, json.dumps(cfg_repr(conf), sort_keys=True)))
        return FakeTree() if kind == "ttml" else "TEXT"
      return f

    class FakeFile(io.StringIO):
      def __init__(self, path, mode):
        super().__init__(json.dumps(FILE_CONFIG) if path == "cfg.json" else "")
        self.path, self.mode = path, mode

      def write(self, s):
        rec.written.append(self.path)
        rec.trace.append(("output", self.path))
        return len(s)

    def fake_open(path, mode="r", encoding=None):
      if "w" in mode or "a" in mode or "x" in mode:
        rec.written.append(path)      # opening for writing creates or truncates the file, whether or not anything is written
      return FakeFile(path, mode)

    class FakePath:
      def __init__(self, p):
        self.p = p

      def read_text(self):
        return ""

    real_lcd_process = LCDDocFilter.process

    def lcd_process(self_, d):
      rec.trace.append(("filter", "lcd", json.dumps(cfg_repr(self_.config), sort_keys=True)))

    real_set_lang = model.ContentDocument.set_lang

    def set_lang(self_, lang):
      rec.trace.append(("lang", lang))

    ns = lambda **k: types.SimpleNamespace(**k)
    pats = [
      (tt, "imsc_reader", ns(to_model=reader("ttml"))), (tt, "scc_reader", ns(to_model=reader("scc"))),
      (tt, "stl_reader", ns(to_model=reader("stl"))), (tt, "srt_reader", ns(to_model=reader("srt"))),
      (tt, "vtt_reader", ns(to_model=reader("vtt"))), (tt, "imsc_writer", ns(from_model=writer("ttml"))),
      (tt, "srt_writer", ns(from_model=writer("srt"))), (tt, "vtt_writer", ns(from_model=writer("vtt"))),
      (tt, "et", ns(parse=lambda p: "TREE")), (tt, "Path", FakePath), (tt, "open", fake_open),
      (LCDDocFilter, "process", lcd_process), (model.ContentDocument, "set_lang", set_lang),
    ]
    argv = ["convert", "-i", "in" + iext, "-o", "out" + oext]
    if itype is not None:
      argv += ["--itype", itype]
    if otype is not None:
      argv += ["--otype", otype]
    for f_ in filters:
      argv += ["--filter", f_]
    if cfg is not None:
      argv += ["--config", json.dumps(cfg)]
    if use_file:
      argv += ["--config_file", "cfg.json"]
    args = tt.cli.parse_args(argv)   # the real argument parser; `convert` is only reachable through it
    import logging
    lvl = tt.LOGGER.level
    with symrun.patched(*pats):
      try:
        _, exc = call(ex, args.func, args)
        exited = None
      except SystemExit as e:
        exc, exited = None, e
    tt.LOGGER.setLevel(lvl)
    want = reference(itype, iext, otype, oext, filters, cfg, FILE_CONFIG if use_file else None)
    det = {"itype": itype, "otype": otype, "_iext": iext, "_oext": oext, "_filters": filters, "config_file": use_file}
    if itype is None or otype is None:
      ex.witness("inferred-from-extension")
    if want is None:
      ex.witness("unsupported-type")
      # unknown file type: an error, and nothing written
      ex.prove((exc is not None or exited is not None) and not rec.written, "C19:unsupported-type-errors-without-output",
               dict(det, _trace=str(rec.trace)[:120]))
      if exc is not None and not isinstance(exc[0], (ValueError,)):
        ex.fail("C18:tt-convert-raises", {"site": exc[1], "exc": type(exc[0]).__name__})
      return
    if exc is not None:
      ex.fail("C19:convert-raises", dict(det, site=exc[1], exc=type(exc[0]).__name__))
      return
    if want and want[-1] == ("exit",):
      ex.witness("unsupported-type")
      ex.prove(exited is not None and not rec.written, "C19:unsupported-type-errors-without-output", det)
      want = want[:-1]
    else:
      ex.prove(exited is None, "C19:convert-completes", det)
    if use_file and cfg is not None:
      ex.witness("config-file-wins")
    if any(t[0] == "lang" for t in want):
      ex.witness("lang-override")
    if any(t[0] == "filter" for t in want):
      ex.witness("filter-applied")
    ex.prove(rec.trace == want, "C19:pipeline-composition", dict(det, _got=str(rec.trace)[:200], _want=str(want)[:200]))


register(DispatchHarness())


class DecoderHarness(Harness):
  name = "c19_decoders"
  properties = ("C19",)
  functions = ("filters.doc.lcd:_safe_area_decoder", "filters.doc.lcd:LCDDocFilterConfig", "stl.config:_decode_max_row_count",
               "imsc.config:IMSCWriterConfiguration.FractionDecoder.__call__", "imsc.config:parse_time_expression_syntax",
               "scc.config:TextAlignment.from_value", "stl.config:_decode_start_tc", "config:ModuleConfiguration.parse")
  assumptions = ("documented domains: lcd.safe_area integer 0..30; booleans are JSON booleans; imsc_writer.time_format in {frames, "
                 "clock_time, clock_time_with_frames}; fps 'n/d' with positive integers; scc_reader.text_align in {left, center, "
                 "right, auto} case-insensitively; stl_reader.max_row_count integer or 'MNR'; program_start_tc 'TCP' or HH:MM:SS:FF",)
  outside = ("colour strings other than the menu", "font_stack strings")
  required_witnesses = ("accepted", "rejected")
  bounds = {"quick": "safe_area: every integer in [-1000,1000] (symbolic); every other key: menu of valid, boundary and invalid values",
            "thorough": "same"}
  budget_s = {"quick": 120, "thorough": 300}
  validate_models = 3

  MENU = [
    ("lcd", "preserve_text_align", [(True, True), (False, True), ("false", False), ("yes", False), (0, False)]),
    ("lcd", "color", [("#ff0000", True), ("red", True), ("notacolor", False), (5, False), (None, True)]),
    ("srt_writer", "text_formatting", [(True, True), (False, True), ("false", False)]),
    ("vtt_writer", "line_position", [(True, True), ("true", False)]),
    ("imsc_writer", "time_format", [("frames", True), ("clock_time", True), ("clock_time_with_frames", True), ("smpte", False), ("FRAMES", False)]),
    ("imsc_writer", "fps", [("25/1", True), ("30000/1001", True), ("25", False), ("a/b", False), ("25/0", False)]),
    ("scc_reader", "text_align", [("left", True), ("CENTER", True), ("auto", True), ("justify", False)]),
    ("stl_reader", "max_row_count", [(23, True), ("MNR", True), ("mnr", True), ("many", False)]),
    ("stl_reader", "program_start_tc", [("TCP", True), ("10:00:00:00", True), ("10:00:00;00", True), ("10:00", False)]),
  ]
  CLASSES = {"lcd": LCDDocFilterConfig, "srt_writer": SRTWriterConfiguration, "vtt_writer": VTTWriterConfiguration,
             "imsc_writer": IMSCWriterConfiguration, "scc_reader": SccReaderConfiguration, "stl_reader": STLReaderConfiguration}

  def partitions(self, tier):
    return [{"k": "safe_area"}] + [{"k": i} for i in range(len(self.MENU))]

  def patches(self, params):
    import ttconv.filters.doc.lcd as lcd
    return [(lcd, "int", symrun.sym_int)] if params["k"] == "safe_area" else []

  def body(self, ex, params):
    if params["k"] == "safe_area":
      x = ex.integer("safe_area", -1000, 1000)
      c, exc = call(ex, LCDDocFilterConfig.parse, {"safe_area": x})
      valid = And(zint(x) >= 0, zint(x) <= 30)
      if exc is None:
        ex.witness("accepted")
        ex.prove(valid, "C19:config-domain", {"key": "lcd.safe_area", "accepted": True})
        ex.prove(zint(c.safe_area) == zint(x), "C19:config-value", {"key": "lcd.safe_area"})
      else:
        ex.witness("rejected")
        ex.prove(Not(valid), "C19:config-domain", {"key": "lcd.safe_area", "accepted": False})
        ex.prove(isinstance(exc[0], ValueError), "C19:config-error-kind", {"key": "lcd.safe_area", "exc": type(exc[0]).__name__})
      return
    mod, key, menu = self.MENU[params["k"]]
    val, ok = menu[ex.choice("value", len(menu))]
    c, exc = call(ex, self.CLASSES[mod].parse, {key: val})
    det = {"key": mod + "." + key, "value": repr(val), "documented": ok}
    ex.witness("accepted" if exc is None else "rejected")
    ex.prove((exc is None) == ok, "C19:config-domain", dict(det, accepted=exc is None))
    if exc is not None:
      ex.prove(isinstance(exc[0], (ValueError, TypeError, ArithmeticError)), "C19:config-error-kind", dict(det, exc=type(exc[0]).__name__))


register(DecoderHarness())
