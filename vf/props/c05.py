"""C05 IMSC write -> read: time expressions survive (exact when representable, < 1 unit otherwise, order preserving) and the
re-read document presents identically."""
from __future__ import annotations

import math
import xml.etree.ElementTree as et
from fractions import Fraction

import z3

import ttconv.model as model
import ttconv.style_properties as styles
import ttconv.time_code as tc
import ttconv.imsc.attributes as imsc_attr
import ttconv.imsc.utils as imsc_utils
import ttconv.imsc.reader as imsc_reader
import ttconv.imsc.writer as imsc_writer
from ttconv.imsc.config import IMSCWriterConfiguration
from ttconv.imsc.attributes import TimeExpressionSyntaxEnum as TES
from ttconv.isd import ISD

from .. import symrun, holes, docgen
from ..docgen import T, S
from ..symrun import And, Or, Not, Implies, zreal, zint, RV, call, numeric_shadows, SymNum
from ..runner import Harness, register
from .c02 import rendering
from .c04 import Quiet

SP = styles.StyleProperties
RATES = [Fraction(24), Fraction(25), Fraction(30), Fraction(50), Fraction(60), Fraction(24000, 1001), Fraction(30000, 1001)]
SYNTAX = [None, TES.clock_time, TES.frames, TES.clock_time_with_frames]


class HoleFraction(symrun.sym_fraction):
  """Fraction() of text that contains formatted symbolic integers: 'H', or 'S.MMM' (two holes, the second of fixed width)"""

  def __new__(cls, n=0, d=None):
    if holes.has_hole(n):
      parts = n.split(".")
      if len(parts) == 1:
        return symrun.sym_fraction(holes.hole_int(n), d)
      if len(parts) == 2 and d is None:
        ex = symrun.cur()
        whole = holes.hole_int(parts[0]) if holes.has_hole(parts[0]) else int(parts[0])
        m = holes.HOLE_RE.fullmatch(parts[1])
        if m is None:
          raise symrun.HarnessError("unsupported decimal text with symbolic digits: %r" % n)
        frac = ex.holes[m.group(0)]
        w = holes.hole_width(ex, frac, m.group(2))
        return symrun.sym_fraction(whole) + symrun.sym_fraction(frac, 10 ** w)
      raise symrun.HarnessError("unsupported numeric text with symbolic digits: %r" % n)
    return symrun.sym_fraction.__new__(cls, n, d)


def reader_hole_patches():
  pats = []
  for nm in dir(imsc_utils):
    if nm.endswith("_RE") and hasattr(getattr(imsc_utils, nm), "pattern"):
      pats.append((imsc_utils, nm, holes.HolePattern(getattr(imsc_utils, nm))))
  pats.append((imsc_utils, "Fraction", HoleFraction))
  return pats


def clock_contract_patch():
  real = tc.ClockTime.from_seconds

  def contract(seconds):
    c = real(seconds)
    if isinstance(seconds, SymNum):
      ex = symrun.cur()
      from .c06 import round_ms
      ms = ((zint(c.get_hours()) * 60 + zint(c.get_minutes())) * 60 + zint(c.get_seconds())) * 1000 + zint(c.get_milliseconds())
      if not ex.is_certain(And(zreal(seconds) >= 0, zreal(seconds) < 360000)):
        raise symrun.HarnessError("ClockTime contract used outside [0,100h)")
      ex.assume(And(ms == round_ms(zreal(seconds)), zint(c.get_milliseconds()) >= 0, zint(c.get_milliseconds()) <= 999, zint(c.get_seconds()) >= 0,
                    zint(c.get_seconds()) <= 59, zint(c.get_minutes()) >= 0, zint(c.get_minutes()) <= 59, zint(c.get_hours()) >= 0, zint(c.get_hours()) <= 99))
    return c
  return (tc.ClockTime, "from_seconds", staticmethod(contract))


class TimeFormatHarness(Harness):
  name = "c05_times"
  properties = ("C05", "C18")
  functions = ("imsc.attributes:to_time_format", "imsc.utils:parse_time_expression", "time_code:SmpteTimeCode.from_seconds",
               "time_code:ClockTime.from_seconds", "imsc.writer:from_model")
  assumptions = ("hole tokens / hole-aware regexes as in C04; ClockTime.from_seconds contract from C12 (assume/guarantee)",
                 "t ranges over all rationals in [0, 24 h)")
  outside = ("times of 24 h and more",)
  required_witnesses = ("representable", "not-representable")
  bounds = {"quick": "4 writer syntaxes x 7 frame rates; t symbolic rational; pairs t1 <= t2 for order preservation; invalid "
                     "configurations must be rejected with ValueError before any output", "thorough": "same"}
  budget_s = {"quick": 200, "thorough": 600}
  validate_models = 3

  def partitions(self, tier):
    out = []
    for s in range(len(SYNTAX)):
      for r in range(-1, len(RATES)):
        out.append({"syntax": s, "rate": r})
    return out

  def patches(self, params):
    return numeric_shadows(tc) + reader_hole_patches() + [clock_contract_patch()]

  def body(self, ex, params):
    syn = SYNTAX[params["syntax"]]
    fps = RATES[params["rate"]] if params["rate"] >= 0 else None
    det = {"syntax": syn.value if syn else None, "fps": str(fps)}
    ex.axiom_floor = True
    # configuration validation through the real writer entry point
    doc = model.ContentDocument()
    cfg = IMSCWriterConfiguration(time_format=syn, fps=fps)
    with Quiet():
      _, exc = call(ex, imsc_writer.from_model, doc, cfg)
    must_reject = (syn in (TES.frames, TES.clock_time_with_frames) and fps is None) or \
                  (syn is TES.clock_time_with_frames and fps is not None and fps.denominator != 1)
    if must_reject:
      ex.prove(exc is not None and isinstance(exc[0], ValueError), "C05:invalid-configuration-rejected", det)
      return
    if exc:
      ex.fail("C05:writer-fails", dict(det, site=exc[1], exc=type(exc[0]).__name__))
      return
    # effective syntax as the writer chooses it
    eff = syn if syn is not None else (TES.frames if fps is not None else TES.clock_time)
    ctx = imsc_attr.TemporalAttributeWritingContext(frame_rate=fps, time_expression_syntax=eff)
    if eff is TES.clock_time or fps is None:
      unit = Fraction(1, 1000)
    else:
      unit = 1 / fps

    # the same time is first written under another frame rate: what one write leaves behind must not leak into the next
    decoy_fps = Fraction(25) if fps != Fraction(25) else Fraction(30)
    decoy = imsc_attr.TemporalAttributeWritingContext(frame_rate=decoy_fps if fps is not None else None, time_expression_syntax=eff)

    def roundtrip(t):
      if fps is not None and eff is not TES.clock_time:
        call(ex, imsc_attr.to_time_format, decoy, t)
      text, exc_ = call(ex, imsc_attr.to_time_format, ctx, t)
      if exc_:
        ex.fail("C05:writer-fails", dict(det, site=exc_[1], exc=type(exc_[0]).__name__))
        return None
      back, exc_ = call(ex, imsc_utils.parse_time_expression, 1, fps if fps is not None else Fraction(30), text)
      if exc_:
        ex.fail("C05:reader-rejects-written-time", dict(det, site=exc_[1], exc=type(exc_[0]).__name__, _text=str(text)[:40]))
        return None
      return back

    if ex.boolean("representable"):
      # representable times are exactly the integer multiples k*unit: make k the symbol
      k = ex.integer("k_units", 0, int(86399 / unit))
      t1 = symrun.sym_fraction(k) * unit if ex.symbolic else Fraction(k) * unit
      ex.witness("representable")
      b1 = roundtrip(t1)
      if b1 is None:
        return
      sc = RV(1 / unit)   # compare in units: keeps the query in integer-friendly form (same statement, scaled by a positive constant)
      ex.prove(z3.simplify(zreal(b1) * sc) == z3.simplify(zreal(t1) * sc), "C05:representable-time-exact", det)
      return
    ex.witness("not-representable")
    t1 = ex.real("t1", 0, 86399)
    b1 = roundtrip(t1)
    if b1 is None:
      return
    z1, zb1 = zreal(t1), zreal(b1)
    sc = RV(1 / unit)
    err = z3.simplify(zb1 * sc) - z1 * sc
    ex.prove(And(err < 1, err > -1), "C05:time-moves-less-than-one-unit", det)
    t2 = ex.real("t2", 0, 86399)
    ex.assume(z1 <= zreal(t2))
    b2 = roundtrip(t2)
    if b2 is None:
      return
    ex.prove(z3.simplify(zb1 * sc) <= z3.simplify(zreal(b2) * sc), "C05:time-order-preserved", det)


register(TimeFormatHarness())


# ---------------------------------------------------------------------------
# structure round trip


def doc_styles():
  """a document exercising value forms: named specials, every unit, two-length shadow, emphasis, ruby with delimiters"""
  L = styles.LengthType
  U = L.Units
  doc = model.ContentDocument()
  doc.set_lang("en")
  doc.set_cell_resolution(model.CellResolutionType(rows=20, columns=40))
  doc.put_initial_value(SP.Color, styles.NamedColors.yellow.value)
  r = model.Region("r1", doc)
  r.set_style(SP.Origin, styles.CoordinateType(x=L(10, U.pct), y=L(2, U.c)))
  r.set_style(SP.Extent, styles.ExtentType(height=L(50, U.pct), width=L(640, U.px)))
  r.set_style(SP.BackgroundColor, styles.NamedColors.transparent.value)
  r.set_style(SP.ShowBackground, styles.ShowBackgroundType.whenActive)
  r.set_style(SP.Padding, styles.PaddingType(L(1, U.c), L(2, U.pct), L(1, U.c), L(2, U.pct)))
  r.set_style(SP.WritingMode, styles.WritingModeType.tbrl)
  doc.put_region(r)
  body = model.Body(doc)
  doc.set_body(body)
  div = model.Div(doc)
  div.set_region(r)
  body.push_child(div)
  p = model.P(doc)
  p.set_style(SP.LineHeight, styles.SpecialValues.normal)
  p.set_style(SP.TextAlign, styles.TextAlignType.end)
  p.set_style(SP.FontSize, L(1.5, U.em))
  div.push_child(p)
  s1 = model.Span(doc)
  s1.set_style(SP.TextShadow, styles.TextShadowType((styles.TextShadowType.Shadow(L(1, U.px), L(2, U.px)),)))
  s1.set_style(SP.TextOutline, styles.SpecialValues.none)
  s1.set_style(SP.TextEmphasis, styles.TextEmphasisType(styles.TextEmphasisType.Style.filled_dot, styles.NamedColors.red.value,
                                                         styles.TextEmphasisType.Position.before))
  s1.set_style(SP.TextDecoration, styles.TextDecorationType(underline=True, line_through=False))
  s1.set_style(SP.FontFamily, ("Arial", styles.GenericFontFamilyType.monospace))
  s1.push_child(model.Text(doc, "A"))
  p.push_child(s1)
  p.push_child(model.Br(doc))
  s2 = model.Span(doc)
  s2.set_style(SP.BackgroundColor, styles.ColorType((0, 0, 0, 128)))
  s2.set_style(SP.Opacity, 0.5)
  s2.push_child(model.Text(doc, "B"))
  p.push_child(s2)
  return doc


def doc_ruby():
  doc = model.ContentDocument()
  doc.set_lang("ja")
  body, div, p = model.Body(doc), model.Div(doc), model.P(doc)
  doc.set_body(body)
  body.push_child(div)
  div.push_child(p)
  ruby = model.Ruby(doc)
  parts = []
  for cls, txt in ((model.Rb, "B"), (model.Rp, "("), (model.Rt, "T"), (model.Rp, ")")):
    e = cls(doc)
    sp = model.Span(doc)
    sp.push_child(model.Text(doc, txt))
    e.push_child(sp)
    parts.append(e)
  ruby.push_children(parts)
  p.push_child(ruby)
  return doc


def doc_adjacent_text():
  doc = model.ContentDocument()
  doc.set_lang("en")
  body, div, p, sp = model.Body(doc), model.Div(doc), model.P(doc), model.Span(doc)
  doc.set_body(body)
  body.push_child(div)
  div.push_child(p)
  p.push_child(sp)
  sp.push_child(model.Text(doc, "A"))
  sp.push_child(model.Text(doc, "B"))
  inner = model.Span(doc)
  inner.push_child(model.Text(doc, "C"))
  sp.push_child(inner)
  sp.push_child(model.Text(doc, "D"))
  return doc


def _simple(doc):
  body, div, p = model.Body(doc), model.Div(doc), model.P(doc)
  doc.set_body(body)
  body.push_child(div)
  div.push_child(p)
  return body, div, p


def doc_partial_decoration():
  """text decoration components left unspecified are inherited: span says only noUnderline inside a struck-through p"""
  doc = model.ContentDocument()
  doc.set_lang("en")
  body, div, p = _simple(doc)
  p.set_style(SP.TextDecoration, styles.TextDecorationType(line_through=True))
  for txt, td in (("A", styles.TextDecorationType(underline=False)), ("B", styles.TextDecorationType(overline=True)),
                  ("C", styles.TextDecorationType(line_through=False, underline=True)), ("D", None)):
    sp = model.Span(doc)
    if td is not None:
      sp.set_style(SP.TextDecoration, td)
    sp.push_child(model.Text(doc, txt))
    p.push_child(sp)
  return doc


def doc_cells(rows, cols):
  """cell resolution with the given grid and a region in cell units (a lost ttp:cellResolution rescales it)"""
  def mk():
    L, U = styles.LengthType, styles.LengthType.Units
    doc = model.ContentDocument()
    doc.set_lang("en")
    doc.set_cell_resolution(model.CellResolutionType(rows=rows, columns=cols))
    r = model.Region("r1", doc)
    r.set_style(SP.Origin, styles.CoordinateType(x=L(4, U.c), y=L(3, U.c)))
    r.set_style(SP.Extent, styles.ExtentType(height=L(6, U.c), width=L(20, U.c)))
    doc.put_region(r)
    body, div, p = _simple(doc)
    div.set_region(r)
    sp = model.Span(doc)
    sp.set_style(SP.FontSize, L(2, U.c))
    sp.push_child(model.Text(doc, "A"))
    p.push_child(sp)
    return doc
  return mk


def doc_special_none():
  """the special value none on every property that has it, under ancestors that set a real value"""
  L, U = styles.LengthType, styles.LengthType.Units
  doc = model.ContentDocument()
  doc.set_lang("en")
  body, div, p = _simple(doc)
  Sh = styles.TextShadowType.Shadow
  p.set_style(SP.TextShadow, styles.TextShadowType((Sh(L(1, U.em), L(2, U.em)),)))
  p.set_style(SP.TextEmphasis, styles.TextEmphasisType(styles.TextEmphasisType.Style.filled_dot, None, styles.TextEmphasisType.Position.before))
  p.set_style(SP.RubyReserve, styles.SpecialValues.none)
  p.set_style(SP.TextOutline, styles.TextOutlineType(L(5, U.pct), styles.NamedColors.red.value))
  sp = model.Span(doc)
  sp.set_style(SP.TextShadow, styles.SpecialValues.none)
  sp.set_style(SP.TextEmphasis, styles.SpecialValues.none)
  sp.set_style(SP.TextOutline, styles.SpecialValues.none)
  sp.push_child(model.Text(doc, "A"))
  p.push_child(sp)
  sp.add_animation_step(model.DiscreteAnimationStep(SP.TextShadow, Fraction(0), None, styles.SpecialValues.none))
  s2 = model.Span(doc)
  s2.push_child(model.Text(doc, "B"))
  p.push_child(s2)
  return doc


def doc_paddings():
  """padding shapes: all equal, two equal pairs, before == after only, start == end only, all different"""
  L, U = styles.LengthType, styles.LengthType.Units
  doc = model.ContentDocument()
  doc.set_lang("en")
  body, div, p = _simple(doc)
  shapes = [(1, 1, 1, 1), (1, 2, 1, 2), (1, 2, 1, 3), (1, 2, 3, 2), (1, 2, 3, 4)]
  for k, (b, e, a, st) in enumerate(shapes):
    r = model.Region("r%d" % k, doc)
    r.set_style(SP.Padding, styles.PaddingType(before=L(b, U.pct), end=L(e, U.pct), after=L(a, U.pct), start=L(st, U.pct)))
    r.set_style(SP.ShowBackground, styles.ShowBackgroundType.always)
    r.set_style(SP.BackgroundColor, styles.NamedColors.red.value)
    doc.put_region(r)
  div.set_region(doc.get_region("r2"))
  sp = model.Span(doc)
  sp.push_child(model.Text(doc, "A"))
  p.push_child(sp)
  return doc


def doc_space_nesting():
  """xml:space default inside preserve and preserve inside default"""
  doc = model.ContentDocument()
  doc.set_lang("en")
  body, div, p = _simple(doc)
  p.set_space(model.WhiteSpaceHandling.PRESERVE)
  for txt, space in ((" a  b ", model.WhiteSpaceHandling.PRESERVE), (" c   d ", model.WhiteSpaceHandling.DEFAULT)):
    sp = model.Span(doc)
    sp.set_space(space)
    sp.push_child(model.Text(doc, txt))
    p.push_child(sp)
  p2 = model.P(doc)
  div.push_child(p2)
  p2.set_space(model.WhiteSpaceHandling.DEFAULT)
  for txt, space in ((" e  f ", model.WhiteSpaceHandling.PRESERVE), (" g   h ", model.WhiteSpaceHandling.DEFAULT)):
    sp = model.Span(doc)
    sp.set_space(space)
    sp.push_child(model.Text(doc, txt))
    p2.push_child(sp)
  return doc


def doc_font_families():
  """family names that need quoting or escaping"""
  doc = model.ContentDocument()
  doc.set_lang("en")
  body, div, p = _simple(doc)
  for k, ff in enumerate([("A B", "C,D", styles.GenericFontFamilyType.monospace), ('say "x"', "it's"), ("a\\b", "tail\\"),
                          (" lead", "default", styles.GenericFontFamilyType.sansSerif, "y")]):
    sp = model.Span(doc)
    sp.set_style(SP.FontFamily, ff)
    sp.push_child(model.Text(doc, "T%d" % k))
    p.push_child(sp)
  return doc


def doc_line_padding(unit):
  def mk():
    doc = model.ContentDocument()
    doc.set_lang("en")
    body, div, p = _simple(doc)
    p.set_style(SP.LinePadding, styles.LengthType(0.5 if unit == "c" else 5, styles.LengthType.Units(unit)))
    sp = model.Span(doc)
    sp.push_child(model.Text(doc, "A"))
    p.push_child(sp)
    return doc
  return mk


def doc_two_shadows():
  L, U = styles.LengthType, styles.LengthType.Units
  doc = model.ContentDocument()
  doc.set_lang("en")
  body, div, p = _simple(doc)
  sp = model.Span(doc)
  Sh = styles.TextShadowType.Shadow
  sp.set_style(SP.TextShadow, styles.TextShadowType((Sh(L(1, U.em), L(2, U.em)), Sh(L(3, U.pct), L(4, U.pct), L(1, U.pct), styles.NamedColors.red.value))))
  sp.push_child(model.Text(doc, "A"))
  p.push_child(sp)
  return doc


STATIC_DOCS = [("styles", doc_styles), ("ruby-with-delimiters", doc_ruby), ("adjacent-text-nodes", doc_adjacent_text),
               ("partial-decoration", doc_partial_decoration), ("cells-32x24", doc_cells(24, 32)), ("cells-40x15", doc_cells(15, 40)),
               ("cells-32x15", doc_cells(15, 32)), ("cells-40x24", doc_cells(24, 40)), ("two-shadows", doc_two_shadows),
               ("special-none", doc_special_none), ("paddings", doc_paddings), ("space-nesting", doc_space_nesting),
               ("font-families", doc_font_families), ("line-padding-c", doc_line_padding("c")), ("line-padding-rh", doc_line_padding("rh"))]

TIMED = [
  ("timed-simple", [["r1", "b e"]], ["body", "", [["div", "r=r1", [["p", "b e", [S("A", "")]], ["p", "b", [S("B", "c=red")]]]]]]),
  ("timed-animation", [["r1", ""]], ["body", "", [["div", "r=r1", [["p", "b e ac", [S("A", ""), ["br", ""]]]]]]]),
  ("timed-nested", [], ["body", "e", [["div", "b", [["p", "e", [["span", "b", [T("A"), ["span", "e", [T("B")]]]]]]]]]]),
]


def text_content(doc):
  if doc is None or doc.get_body() is None:
    return []
  return [e.get_text() for e in doc.get_body().dfs_iterator() if isinstance(e, model.Text)]


def kinds(doc):
  if doc is None or doc.get_body() is None:
    return []
  return [type(e).__name__ for e in doc.get_body().dfs_iterator() if not isinstance(e, model.Text)]


class RoundTripHarness(Harness):
  name = "c05_roundtrip"
  properties = ("C05", "C18", "C14")
  functions = ("imsc.writer:from_model", "imsc.elements:TTElement.from_model", "imsc.elements:ContentElement.from_model",
               "imsc.elements:ContentElement.from_model_style_properties", "imsc.reader:to_model")
  assumptions = ("the written tree is serialised with ElementTree.tostring and parsed again (the XML serialiser/parser are trusted); "
                 "in timed documents every time is k/1000 with k a symbolic integer (representable in clock_time syntax), printed as "
                 "hole tokens and re-read through the hole-aware time parser",
                 "static documents are concrete (style value forms chosen to cover specials, units, shadows, emphasis, ruby delimiters)")
  outside = ("numeric style values beyond the menu (they cross a %g formatting boundary that cannot be symbolic)",
             "frames / clock_time_with_frames syntaxes in the structural round trip (their time arithmetic is c05_times)")
  required_witnesses = ("static", "timed")
  bounds = {"quick": "15 static documents + 3 timed skeletons (millisecond-grid symbolic times, symbolic query time), writer configs {none, clock_time}",
            "thorough": "same"}
  budget_s = {"quick": 280, "thorough": 900}
  validate_models = 3

  def partitions(self, tier):
    return [{"static": i} for i in range(len(STATIC_DOCS))] + [{"timed": i} for i in range(len(TIMED))]

  def patches(self, params):
    return numeric_shadows(tc) + reader_hole_patches() + [clock_contract_patch()]

  def body(self, ex, params):
    if "static" in params:
      name, mk = STATIC_DOCS[params["static"]]
      doc = mk()
      ex.witness("static")
      ts = [0]
    else:
      name, regions, skel = TIMED[params["timed"]]
      ex.witness("timed")
      # millisecond grid: each time symbol is k/1000
      class Grid:
        symbolic = ex.symbolic
        def __getattr__(s_, a):
          return getattr(ex, a)
        def real(s_, nm, lo=None, hi=None):
          k = ex.integer(nm + "_ms", 0, 10 ** 6)
          return symrun.sym_fraction(k, 1000) if ex.symbolic else Fraction(k, 1000)
      info = docgen.build(Grid(), skel, regions)
      doc = info.doc
      doc.set_lang("en")
      ts = [ex.real("t", 0, 2000)]
    det = {"doc": name}
    from .c14 import doc_fingerprint
    before = doc_fingerprint(doc) if "C14" in ex.active else None
    with Quiet():
      tree, exc = call(ex, imsc_writer.from_model, doc, None if ex.choice("cfg", 2) == 0 else IMSCWriterConfiguration(time_format=TES.clock_time))
    if "C14" in ex.active:
      ex.prove(doc_fingerprint(doc) == before, "C14:source-unchanged", {"op": "imsc-writer", "tags": [name]})
    if exc:
      ex.fail("C18:writer-raises", dict(det, site=exc[1], exc=type(exc[0]).__name__, tags=["imsc"]))
      ex.fail("C05:writer-fails", dict(det, site=exc[1], exc=type(exc[0]).__name__))
      return
    if "C05" not in ex.active:
      return
    xml = et.tostring(tree.getroot(), encoding="unicode")
    import logging
    from .c04 import LogCapture
    cap = LogCapture()
    lg = logging.getLogger("ttconv")
    old_disable = logging.root.manager.disable
    logging.disable(logging.NOTSET)
    lg.addHandler(cap)
    prop_ = lg.propagate
    lg.propagate = False
    try:
      doc2, exc = call(ex, lambda: imsc_reader.to_model(et.ElementTree(et.fromstring(xml))))
    finally:
      lg.removeHandler(cap)
      lg.propagate = prop_
      logging.disable(old_disable)
    if exc:
      ex.fail("C05:reader-rejects-written-document", dict(det, site=exc[1], exc=type(exc[0]).__name__))
      return
    errs = [r.getMessage() for r in cap.records if r.levelno >= logging.ERROR]
    ex.prove(not errs, "C05:reader-rejects-written-value", dict(det, _errors=str(errs)[:120]))
    ex.prove(doc2 is not None and doc2.get_lang() == doc.get_lang() and doc2.get_cell_resolution() == doc.get_cell_resolution()
             and doc2.get_active_area() == doc.get_active_area() and doc2.get_display_aspect_ratio() == doc.get_display_aspect_ratio(),
             "C05:document-parameters", det)
    # the writer must not drop model elements or text: compare the model with the *written* XML
    root = et.fromstring(xml)
    written_text = "".join(root.find("{http://www.w3.org/ns/ttml}body").itertext()) if root.find("{http://www.w3.org/ns/ttml}body") is not None else ""
    ex.prove(written_text == "".join(text_content(doc)), "C05:no-element-dropped", dict(det, what="text", _got=written_text[:40], _want="".join(text_content(doc))[:40]))
    n_model = len([k for k in kinds(doc)])
    n_xml = len([e for e in root.iter() if e.tag.startswith("{http://www.w3.org/ns/ttml}") and e.tag.split("}")[1] in ("body", "div", "p", "span", "br")])
    ex.prove(n_xml == n_model, "C05:no-element-dropped", dict(det, what="elements", _got=n_xml, _want=n_model))
    for t in ts:
      a, exc = call(ex, ISD.from_model, doc, t)
      b, exc2 = call(ex, ISD.from_model, doc2, t)
      if exc or exc2:
        e_ = exc or exc2
        ex.fail("C18:snapshot-raises", {"site": e_[1], "exc": type(e_[0]).__name__, "tags": ["c05", name]})
        return
      ra, rb = strip_ids(rendering(a)), strip_ids(rendering(b))
      ex.prove(approx_same(ra, rb), "C05:same-snapshot", dict(det, _diff=first_diff(ra, rb)))


def strip_ids(fp):
  """element ids of anonymous spans differ legitimately; adjacent text nodes are one run of text; compare everything else"""
  def rec(n):
    kind, eid, text, st, lang, kids = n
    out = []
    for k in kids:
      r = rec(k)
      if r[0] == "Text" and out and out[-1][0] == "Text":
        out[-1] = ("Text", out[-1][1] + r[1], r[2], r[3])
      else:
        out.append(r)
    return (kind, text, st, tuple(out))   # xml:lang is inherited from tt on re-read; not varied here
  return tuple(rec(r) for r in fp)


def approx_same(a, b):
  import re
  def norm(x):
    s = repr(x)
    # numeric values agree to the written precision (6 significant digits)
    return re.sub(r"\d+\.\d+", lambda m: "%.5g" % float(m.group(0)), s)
  return norm(a) == norm(b)


def first_diff(a, b):
  sa, sb = repr(a), repr(b)
  for i, (x, y) in enumerate(zip(sa, sb)):
    if x != y:
      return (sa[max(0, i - 40): i + 40] + " <> " + sb[max(0, i - 40): i + 40])[:200]
  return "length %d vs %d" % (len(sa), len(sb))


register(RoundTripHarness())
