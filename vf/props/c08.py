"""C08 SCC reader vs a reference CEA-608 decoder (pop-on, roll-up, paint-on on channel 1).

The real `ttconv.scc.reader.to_model` runs on an SCC text whose word sequence is drawn (solver-backed selectors) from the
protocol grammars below and whose line time code is a *symbolic* frame count n0: `SmpteTimeCode.parse/add_frames/
to_temporal_offset` are cut at their contract (decided by C12: add_frames(k) advances the frame count by k and
to_temporal_offset is frames/rate), so every begin/end in the document is a term over n0 and the window claims are solver
queries.  The reference R-608 below is written from 47 CFR 15.119 / CEA-608: two 15x32 memories, cursor, pen, mode,
data-channel latch, doubled-control-code rule; it reads nothing of ttconv (the character tables come from c17's reference)."""
from __future__ import annotations

import copy
from fractions import Fraction

import z3

import ttconv.model as model
import ttconv.style_properties as styles
import ttconv.time_code as tc
import ttconv.scc.reader as scc_reader
import ttconv.scc.line as line_mod
from ttconv.scc.config import SccReaderConfiguration, TextAlignment

from .. import symrun
from ..symrun import And, Or, Not, zreal, zint, RV, call, SymNum
from ..runner import Harness, register
from .c17 import STD_SUBST, SPECIALS, EXT1, EXT2, ROWS, COLORS7

SP = styles.StyleProperties
NDF = Fraction(30)
DF = Fraction(30000, 1001)

# ---------------------------------------------------------------------------
# word encoders (CEA-608 bit patterns, data channel 1 unless ch=2)

MISC = {"RCL": 0x20, "BS": 0x21, "DER": 0x24, "RU2": 0x25, "RU3": 0x26, "RU4": 0x27, "RDC": 0x29, "EDM": 0x2C, "CR": 0x2D,
        "ENM": 0x2E, "EOC": 0x2F}
ROW_CODE = {}
for _c, (_a, _b) in ROWS.items():
  ROW_CODE[_a] = (_c, 0x40)
  if _b is not None:
    ROW_CODE[_b] = (_c, 0x60)


def w_misc(name, ch=1):
  return ((0x14 | (8 if ch == 2 else 0)) << 8) | MISC[name]


def w_tab(n, ch=1):
  return ((0x17 | (8 if ch == 2 else 0)) << 8) | (0x20 + n)


def w_pac(row, indent=None, color=None, italic=False, underline=False, ch=1):
  c, base = ROW_CODE[row]
  if indent is not None:
    attr = 0x10 | ((indent // 4) << 1)
  elif italic:
    attr = 0x0E
  else:
    attr = COLORS7.index(color or "white") << 1
  return ((0x10 | c | (8 if ch == 2 else 0)) << 8) | base | attr | (1 if underline else 0)


def w_midrow(color=None, italic=False, underline=False, ch=1):
  attr = 0x0E if italic else COLORS7.index(color or "white") << 1
  return ((0x11 | (8 if ch == 2 else 0)) << 8) | 0x20 | attr | (1 if underline else 0)


def w_special(i, ch=1):
  return ((0x11 | (8 if ch == 2 else 0)) << 8) | 0x30 | i


def w_ext(table, i, ch=1):
  return (((0x12 if table == 1 else 0x13) | (8 if ch == 2 else 0)) << 8) | 0x20 | i


def w_text(s):
  b = [ord(c) for c in s] + [0]
  return (b[0] << 8) | b[1]


def odd_parity(byte):
  return byte | (0x80 if bin(byte).count("1") % 2 == 0 else 0)


def render_words(words, parity):
  out = []
  for w in words:
    b1, b2 = w >> 8, w & 0xFF
    if parity:
      b1, b2 = odd_parity(b1), odd_parity(b2)
    out.append("%02x%02x" % (b1, b2))
  return " ".join(out)


# ---------------------------------------------------------------------------
# R-608: reference decoder

WHITE = "white"


def std_char(b):
  return chr(STD_SUBST.get(b, b))


class Ref608:
  """displayed/non-displayed memories as {row: {col: (char, (color, italic, underline))}}"""

  def __init__(self):
    self.mode = None          # "pop", "roll", "paint"
    self.depth = 0
    self.dm = {}
    self.ndm = {}
    self.row, self.col = 15, 0
    self.pen = (WHITE, False, False)
    self.latched = True       # data channel 1 selected
    self.prev_ctrl = None     # last control word acted upon, still eligible to be a first copy
    self.events = []          # (word index, kind, snapshot of the displayed memory)

  # --- helpers
  def mem(self):
    return self.ndm if self.mode == "pop" else self.dm

  def snap(self):
    return {r: dict(c) for r, c in self.dm.items() if c}

  def changed(self, idx, kind):
    self.events.append((idx, kind, self.snap()))

  def put(self, ch):
    self.mem().setdefault(self.row, {})[self.col] = (ch, self.pen)
    self.col = min(self.col + 1, 31)

  def back(self):
    if self.col > 0:
      self.col -= 1
      self.mem().get(self.row, {}).pop(self.col, None)

  # --- one word (parity already stripped), transmitted in frame n0+idx
  def feed(self, idx, w):
    b1, b2 = w >> 8, w & 0xFF
    if b1 == 0 and b2 == 0:
      return
    if 0x10 <= b1 <= 0x1F:
      if self.prev_ctrl == w:
        self.prev_ctrl = None      # second copy of a doubled control code
        return
      self.prev_ctrl = w
      if b1 & 0x08:
        self.latched = False
        return
      self.latched = True
      self.control(idx, b1, b2)
      return
    self.prev_ctrl = None
    if not self.latched or self.mode is None:
      return
    before = self.snap() if self.mode != "pop" else None
    for b in (b1, b2):
      if b >= 0x20:
        self.put(std_char(b))
    if self.mode != "pop" and self.snap() != before:
      self.changed(idx, "text")

  def control(self, idx, b1, b2):
    c = b1 & 0x07
    pac_ok = (0x40 <= b2 <= 0x7F) if c != 0 else (0x40 <= b2 <= 0x5F)
    if pac_ok:
      rows = ROWS[c]
      row = rows[1] if b2 & 0x20 else rows[0]
      attr = (b2 & 0x1E) >> 1
      u = bool(b2 & 1)
      if self.mode == "roll":
        # roll-up: the base row moves, the window content moves with it (not generated by the grammar: base row stays 15)
        self.col = 0
      else:
        self.row = row
        self.col = 0
      if attr & 0x08:
        self.col = (attr & 0x07) * 4
        self.pen = (WHITE, False, u)
      elif attr == 7:
        self.pen = (WHITE, True, u)
      else:
        self.pen = (COLORS7[attr], False, u)
      return
    if c == 1 and 0x20 <= b2 <= 0x2F:
      # mid-row code: occupies one cell (displayed as a space)
      before = self.snap() if self.mode != "pop" else None
      self.put(" ")
      attr = (b2 & 0x0E) >> 1
      u = bool(b2 & 1)
      if attr == 7:
        # italics mid-row code: whether the colour is kept or returns to white is left open (both accepted)
        keep = self.pen[0] if isinstance(self.pen[0], tuple) else (self.pen[0],)
        self.pen = (tuple(sorted(set(keep) | {WHITE})), True, u)
      else:
        self.pen = (COLORS7[attr], False, u)
      if self.mode not in (None, "pop") and self.snap() != before:
        self.changed(idx, "text")
      return
    if c == 1 and 0x30 <= b2 <= 0x3F:
      if self.mode is not None:
        before = self.snap()
        self.put(chr(SPECIALS[b2 - 0x30]))
        if self.mode != "pop" and self.snap() != before:
          self.changed(idx, "text")
      return
    if c in (2, 3) and 0x20 <= b2 <= 0x3F:
      if self.mode is not None:
        before = self.snap()
        self.back()
        self.put(chr((EXT1 if c == 2 else EXT2)[b2 - 0x20][0]))
        if self.mode != "pop" and self.snap() != before:
          self.changed(idx, "text")
      return
    if c == 7 and 0x21 <= b2 <= 0x23:
      self.col = min(self.col + (b2 - 0x20), 31)
      return
    if c == 4 and 0x20 <= b2 <= 0x2F:
      name = {v: k for k, v in MISC.items()}.get(b2)
      if name == "RCL":
        self.mode = "pop"
      elif name == "RDC":
        self.mode = "paint"
      elif name in ("RU2", "RU3", "RU4"):
        new_depth = int(name[2])
        if self.mode in ("pop", "paint"):
          # switching from pop-on/paint-on to roll-up erases both memories
          had = bool(self.snap())
          self.dm, self.ndm = {}, {}
          if had:
            self.changed(idx, "erase")
        self.mode = "roll"
        self.depth = new_depth
        self.row, self.col = 15, 0
      elif name == "ENM":
        self.ndm = {}
      elif name == "EDM":
        had = bool(self.snap())
        self.dm = {}
        if had:
          self.changed(idx, "EDM")
      elif name == "EOC":
        self.dm, self.ndm = self.ndm, self.dm
        self.mode = "pop"
        self.changed(idx, "EOC")
      elif name == "BS":
        if self.mode is not None:
          before = self.snap()
          self.back()
          if self.mode != "pop" and self.snap() != before:
            self.changed(idx, "text")
      elif name == "CR":
        if self.mode == "roll":
          before = self.snap()
          top = self.row - self.depth + 1
          new = {}
          for r, cells in self.dm.items():
            if r - 1 >= top and r <= self.row:
              new[r - 1] = cells
          self.dm = new
          self.col = 0
          if self.snap() != before:
            self.changed(idx, "CR")
      elif name == "DER":
        if self.mode is not None:
          before = self.snap()
          cells = self.mem().get(self.row, {})
          for k in [k for k in cells if k >= self.col]:
            del cells[k]
          if self.mode != "pop" and self.snap() != before:
            self.changed(idx, "text")


def row_text(cells):
  """(text, styles of the non-space characters) of one row: the occupied cells in column order (a transparent gap
  holds no character; its width is a column matter, outside the claim)"""
  cols = sorted(cells)
  text, sty = "", []
  for k in cols:
    ch, pen = cells[k]
    text += ch
    if ch != " ":
      sty.append(pen)
  return text, sty


def pens_match(got, want):
  """per character (colour, italic, underline); a tuple of colours in the reference means any of them"""
  if len(got) != len(want):
    return False
  for g, w in zip(got, want):
    cols = w[0] if isinstance(w[0], tuple) else (w[0],)
    if g[0] not in cols or g[1:] != w[1:]:
      return False
  return True


class Rows(list):
  """[(row, stripped text, styles)] plus the left-most occupied column of the screen"""
  left = None


def screen_rows(snapshot):
  """[(row, stripped text, styles)] of the rows showing at least one non-space character, in row order"""
  out = Rows()
  for r in sorted(snapshot):
    t, s = row_text(snapshot[r])
    if t.strip(" "):
      out.append((r, t.strip(" "), s))
      c = min(snapshot[r])
      out.left = c if out.left is None else min(out.left, c)
  return out


def periods(events):
  """[(in_idx, in_kind, out_idx or None, out_kind, rows)] maximal spans of an unchanged, visible displayed memory"""
  out = []
  cur = None
  for idx, kind, snap in events:
    rows = screen_rows(snap)
    if cur is not None:
      if rows == cur[2] and kind not in ("EOC",):
        continue
      out.append((cur[0], cur[1], idx, kind, cur[2]))
      cur = None
    if rows:
      cur = (idx, kind, rows)
  if cur is not None:
    out.append((cur[0], cur[1], None, None, cur[2]))
  return out


STRUCTURAL = ("CR", "EDM", "EOC", "erase")


def runs(events):
  """[(open_idx, open_kind, [(idx, rows)], close_idx, close_kind)]: the display between two structural changes (flip,
  erase, roll); text received in between (roll-up, paint-on) extends the run's snapshot list"""
  out = []
  cur = None
  for idx, kind, snap in events:
    rows = screen_rows(snap)
    if kind == "text" and cur is not None and rows:
      if rows != cur[2][-1][1]:
        cur[2].append((idx, rows))
      continue
    if cur is not None:
      if rows == cur[2][-1][1] and kind != "EOC":
        continue
      out.append((cur[0], cur[1], cur[2], idx, kind))
      cur = None
    if rows:
      cur = (idx, kind, [(idx, rows)])
  if cur is not None:
    out.append((cur[0], cur[1], cur[2], None, None))
  return out


# ---------------------------------------------------------------------------
# document side

COLOR_NAMES = {}
for _n in COLORS7:
  COLOR_NAMES[getattr(styles.NamedColors, _n).value] = _n


def doc_paragraphs(doc):
  """[(begin, end, region, rows=[(row offset, text, styles)])] for every p in document order"""
  out = []
  body = doc.get_body()
  for p in (body.dfs_iterator() if body is not None else []):
    if not isinstance(p, model.P):
      continue
    rows, off, text, sty = [], 0, "", []
    for ch in p:
      if isinstance(ch, model.Br):
        rows.append((off, text, sty))
        off, text, sty = off + 1, "", []
      elif isinstance(ch, model.Span):
        t = "".join(x.get_text() for x in ch if isinstance(x, model.Text))
        col = ch.get_style(SP.Color)
        fs = ch.get_style(SP.FontStyle)
        td = ch.get_style(SP.TextDecoration)
        pen = (COLOR_NAMES.get(col, str(col)) if col is not None else WHITE, fs is styles.FontStyleType.italic,
               bool(td is not None and td.underline))
        text += t
        sty += [pen for c in t if c != " "]
    rows.append((off, text, sty))
    out.append((p.get_begin(), p.get_end(), p.get_region(), [(o, t.strip(" "), s) for o, t, s in rows if t.strip(" ")]))
  return out


# ---------------------------------------------------------------------------
# contract cut of SmpteTimeCode (symbolic runs only)

# grammar tags that are part of a violation's signature (the others are informational)
CTX_TAGS = ("flipped-memory-row-reused", "blank-line", "row-rewritten")


class _Cut:
  bases = []    # symbolic frame count of every SCC line, in file order
  k = 0
  rate = None


def _cut_parse(time_code, base_frame_rate):
  t = tc.SmpteTimeCode(0, 0, 0, 0, _Cut.rate)
  t._vf_n = _Cut.bases[_Cut.k]
  _Cut.k += 1
  return t


def _cut_add_frames(self, nb_frames=1):
  self._vf_n = self._vf_n + nb_frames


def _cut_to_temporal_offset(self):
  return symrun.sym_fraction(self._vf_n, self._frame_rate)


def _cut_to_frames(self):
  return self._vf_n


def _cut_from_frames(nb_frames, frame_rate):
  t = tc.SmpteTimeCode(0, 0, 0, 0, frame_rate)
  t._vf_n = nb_frames
  return t


# ---------------------------------------------------------------------------
# grammars

ROW_MENU = [15, 14, 1, 4, 11, 8]
TEXT_ITEMS = [
  ("AB", [w_text("AB")]),
  ("C", [w_text("C")]),
  ("note", [w_special(7)]),
  ("A+ext", [w_text("A"), w_ext(1, 0)]),
  ("AB+ext", [w_text("EA"), w_ext(2, 0x10)]),
  ("AB+BS", [w_text("AX"), w_misc("BS"), w_misc("BS")]),
  ("it+DE", [w_midrow(italic=True), w_midrow(italic=True), w_text("DE")]),
  ("red_u+F", [w_midrow(color="red", underline=True), w_midrow(color="red", underline=True), w_text("F")]),
  (" G", [w_text(" G")]),
  ("subst", [w_text("*\\")]),
]
PAC_MENU = [
  dict(indent=0), dict(indent=4), dict(indent=20, underline=True), dict(color="green"), dict(color="cyan", underline=True),
  dict(italic=True),
]
CH2_BLOCK = [w_misc("RCL", 2), w_misc("RCL", 2), w_pac(15, indent=0, ch=2), w_pac(15, indent=0, ch=2), w_text("XX"),
             w_misc("EOC", 2), w_misc("EOC", 2)]


FULL = dict(rows_menu=list(range(6)), pacs=list(range(6)), tabs=[0, 1, 2], item_menu=list(range(10)), items=2, rows=2,
            nulls=2, tails=[0, 1, 2, 3])
SIMPLE = dict(rows_menu=[0], pacs=[0], tabs=[0], item_menu=[0], items=1, rows=1, nulls=1, tails=[0])


class Gen:
  """draws a word sequence from the grammar through ex.choice; `lim` gives the menu of every draw:
  rows_menu/pacs/tabs/item_menu: lists of indices into ROW_MENU/PAC_MENU/[0,1,3]/TEXT_ITEMS; items, rows: max counts
  (exact when given as a one-element list); nulls: padding words 0..nulls-1; tails: what follows the first EOC;
  second: limits of the 2nd/3rd caption; flags ch2, single_ok, edm_before_eoc, enm_optional"""

  def __init__(self, ex, limits):
    self.ex = ex
    self.n = 0
    self.words = []
    self.tags = set()
    self.breaks = []      # indices in self.words where a new SCC line starts
    self.single = None
    self.nctrl = 0
    self.lim = dict(SIMPLE, **limits)

  def pick(self, what, menu):
    """one element of `menu` (a list, or a count meaning range(count))"""
    if isinstance(menu, int):
      menu = list(range(menu))
    self.n += 1
    return menu[self.ex.choice("g%d_%s" % (self.n, what), len(menu)) if len(menu) > 1 else 0]

  def line_lim(self, base, k):
    """limits of the k-th row/line: base overridden by base["per_line"][k] when given"""
    per = base.get("per_line") or []
    self.lim = dict(base, **(per[min(k, len(per) - 1)] if per else {}))
    return self.lim

  def newline(self):
    """the following words go on a new SCC line (own time code) when the grammar allows it"""
    if self.lim.get("multi_line") and self.words and (not self.breaks or self.breaks[-1] != len(self.words)):
      self.breaks.append(len(self.words))
      self.tags.add("multi-line")

  def count(self, what, spec):
    """a count in 1..spec, or exactly spec[0] when a list"""
    return spec[0] if isinstance(spec, list) else 1 + self.pick(what, spec)

  def flag(self, what):
    return bool(self.pick(what, 2))

  def ctrl(self, w):
    """a control code, transmitted twice unless the grammar draws a single transmission"""
    self.words.append(w)
    if self.single is None:
      self.single = self.pick("single", 3) if self.lim.get("single_ok") else 0
    self.nctrl += 1
    # 0: every control code doubled; 1: none doubled; 2: alternately
    if self.single == 1 or (self.single == 2 and self.nctrl % 2 == 0):
      self.tags.add("single-control-code")
    else:
      self.words.append(w)

  def nulls(self):
    k = self.pick("nulls", self.lim["nulls"])
    self.words += [0] * k
    if k:
      self.tags.add("null-padding")

  def row(self, rows_used):
    lim = self.lim
    self.all_rows = getattr(self, "all_rows", [])
    avail = [ROW_MENU[i] for i in lim["rows_menu"] if ROW_MENU[i] not in rows_used]
    r = self.pick("row", avail)
    rows_used.append(r)
    self.all_rows.append(r)
    pac_word = w_pac(r, **PAC_MENU[self.pick("pac", lim["pacs"])])
    if lim.get("ch2_twin") and self.flag("twin"):
      # the channel-1 PAC sent once, directly followed by the same PAC for channel 2 and channel-2 text; channel 1
      # resumes with its PAC repeated (a different word from the channel-2 one: not a doubled code)
      self.words += [pac_word, pac_word | 0x0800, w_text("XX")]
      self.tags.add("channel-2-twin-code")
    self.ctrl(pac_word)
    to = self.pick("tab", lim["tabs"])
    if to:
      self.ctrl(w_tab([0, 1, 3][to]))
      self.tags.add("tab-offset")
    for k in range(self.count("nitems", lim["items"])):
      name, ws = TEXT_ITEMS[self.pick("item", lim["item_menu"])]
      self.words += ws
      self.tags.add(name)
    return r

  def ch2(self):
    if self.lim.get("ch2") and self.flag("ch2"):
      self.words += CH2_BLOCK
      self.tags.add("channel-2-block")
      return True
    return False

  def popon_caption(self, enm=True):
    self.ctrl(w_misc("RCL"))
    if enm:
      self.ctrl(w_misc("ENM"))
    rows = []
    base = self.lim
    for k in range(self.count("nrows", base["rows"])):
      self.line_lim(base, k)
      self.row(rows)
      if k == 0 and self.ch2():
        # data channel 1 resumes with the next channel-1 control code
        self.ctrl(w_misc("RCL"))
        if self.flag("more"):
          self.words += [w_text("hi")]
    self.lim = base
    self.nulls()

  def popon(self):
    lim = self.lim
    first = self.lim
    self.popon_caption(enm=not (lim.get("enm_optional") and self.flag("no_enm")))
    if lim.get("edm_before_eoc") and self.flag("edm_first"):
      self.ctrl(w_misc("EDM"))
      self.tags.add("EDM-before-EOC")
    self.ctrl(w_misc("EOC"))
    tail = self.pick("tail", lim["tails"])
    self.newline()
    self.lim = dict(SIMPLE, **dict({k: v for k, v in first.items() if k in ("multi_line",)}))
    self.lim = dict(self.lim, **dict({k: v for k, v in first.items() if k in ("ch2", "single_ok")}, **lim.get("second", {})))
    if tail == 1:
      self.nulls()
      self.ctrl(w_misc("EDM"))
      self.tags.add("erased-by-EDM")
    elif tail == 2:
      self.popon_caption()
      self.ctrl(w_misc("EOC"))
      self.tags.add("replaced-by-EOC")
      if self.flag("edm_end"):
        self.ctrl(w_misc("EDM"))
    elif tail == 4:
      # third caption composed over the flipped-out first caption (no ENM): old cells remain unless overwritten
      first_rows = list(self.all_rows)
      self.popon_caption()
      self.ctrl(w_misc("EOC"))
      n2 = len(self.all_rows)
      self.popon_caption(enm=False)
      self.ctrl(w_misc("EOC"))
      self.tags.add("third-caption-over-flipped-memory")
      if set(self.all_rows[n2:]) & set(first_rows):
        self.tags.add("flipped-memory-row-reused")
      else:
        self.tags.add("flipped-memory-rows-kept")
    elif tail == 3:
      # an empty non-displayed memory is flipped in: the caption vanishes
      self.ctrl(w_misc("RCL"))
      self.ctrl(w_misc("ENM"))
      self.ctrl(w_misc("EOC"))
      self.tags.add("replaced-by-empty-EOC")
    return self.words


def _rollup(self):
  lim = self.lim
  depth = self.pick("depth", lim.get("depths", [2]))
  self.tags.add("RU%d" % depth)
  self.ctrl(w_misc("RU%d" % depth))
  if lim.get("lead_cr", True):
    self.ctrl(w_misc("CR"))
  nlines = self.count("nlines", lim.get("lines", 2))
  base = lim
  for k in range(nlines):
    lim = self.line_lim(base, k)
    if k:
      self.newline()
      self.ctrl(w_misc("CR"))
    if k == 0 or (lim.get("pac_optional") and self.flag("pac")) or not lim.get("pac_optional"):
      self.ctrl(w_pac(15, **PAC_MENU[self.pick("pac", lim["pacs"])]))
    to = self.pick("tab", lim["tabs"])
    if to:
      self.ctrl(w_tab([0, 1, 3][to]))
      self.tags.add("tab-offset")
    if k and lim.get("blank_lines") and self.flag("blank"):
      self.tags.add("blank-line")
      continue
    for _ in range(self.count("nitems", lim["items"])):
      name, ws = TEXT_ITEMS[self.pick("item", lim["item_menu"])]
      self.words += ws
      self.tags.add(name)
    if k == 0:
      if self.ch2():
        self.ctrl(w_misc("RU%d" % depth))
    self.nulls()
  self.lim = lim = base
  tail = self.pick("tail", lim["tails"])
  if tail:
    self.newline()
  if tail == 1:
    self.ctrl(w_misc("EDM"))
    self.tags.add("erased-by-EDM")
  elif tail == 2:
    self.ctrl(w_misc("EDM"))
    self.ctrl(w_misc("CR"))
    self.words += [w_text("ZZ")]
    self.tags.add("line-after-EDM")
  elif tail == 3:
    self.ctrl(w_misc("CR"))
    self.tags.add("final-CR")
  return self.words


def _painton(self):
  lim = self.lim
  self.ctrl(w_misc("RDC"))
  rows = []
  for k in range(self.count("nrows", lim["rows"])):
    self.line_lim(lim, k)
    if k:
      self.newline()
    self.row(rows)
    if k == 0 and self.ch2():
      self.ctrl(w_misc("RDC"))
    self.nulls()
  self.lim = lim
  tail = self.pick("tail", lim["tails"])
  if tail:
    self.newline()
  if tail == 1:
    self.ctrl(w_misc("EDM"))
    self.tags.add("erased-by-EDM")
  elif tail == 2:
    self.ctrl(w_misc("EDM"))
    self.ctrl(w_pac(13, indent=0))
    self.words += [w_text("ZZ")]
    self.tags.add("row-after-EDM")
  elif tail == 3:
    # write again on the first row (the PAC moves the cursor; cells are overwritten one by one)
    self.ctrl(w_pac(rows[0], indent=0))
    self.words += [w_text("Q")]
    self.tags.add("row-rewritten")
  return self.words


Gen.rollup = _rollup
Gen.painton = _painton


def build_text(lines, parity, df, bases=None):
  """SCC text, one caption line per element of `lines`: in symbolic runs the labels are placeholders (parse is cut),
  natively they are the labels of the concrete frame counts `bases`"""
  sep = ";" if df else ":"
  out = "Scenarist_SCC V1.0\n\n"
  for k, words in enumerate(lines):
    if bases is None:
      label = "00:00:00" + sep + "00"
    else:
      t = tc.SmpteTimeCode.from_frames(bases[k], DF if df else NDF)
      label = "%02d:%02d:%02d%s%02d" % (t.get_hours(), t.get_minutes(), t.get_seconds(), sep, t.get_frames())
    out += label + "\t" + render_words(words, parity) + "\n\n"
  return out


class SccHarness(Harness):
  quick_only_for = ("C18",)   # the deep tier runs under the harness's own property; the C18 roll-up reuses the quick partitions
  properties = ("C08", "C18")
  functions = ("scc.reader:to_model", "scc.line:SccLine.from_str", "scc.line:SccLine.process", "scc.word:SccWord.from_str",
               "scc.context:SccContext.*", "scc.caption_paragraph:SccCaptionParagraph.*", "scc.caption_line:SccCaptionLine.*",
               "scc.caption_text:SccCaptionText.*", "scc.utils:*")
  assumptions = ("SmpteTimeCode.parse / add_frames / to_frames / from_frames / to_temporal_offset are cut at their contract in symbolic runs (label -> "
                 "frame count n0, +k frames, frames/rate); the contract itself is what C12 decides; native replay uses the real class",
                 "R-608 (vf/props/c08.py Ref608) is the reference decoder; a word's transmission window is [n0+i, n0+i+1] frames "
                 "for the i-th word of the line (one word per frame)",
                 "rows are compared after stripping leading/trailing spaces (transparent vs. opaque space is not observable in "
                 "the model); styles are compared on non-space characters")
  outside = ("columns within a row (the model keeps only the caption's left-most indent)", "background/attribute codes, flash, "
             "text mode, field 2 / XDS", "null padding between the two copies of a doubled control code",
             "streams that violate the protocols (text before any mode code, >32 columns)")
  validate_models = 40

  def patches(self, params):
    return symrun.numeric_shadows(tc) + [(tc.SmpteTimeCode, "parse", staticmethod(_cut_parse)),
                                         (tc.SmpteTimeCode, "add_frames", _cut_add_frames),
                                         (tc.SmpteTimeCode, "to_temporal_offset", _cut_to_temporal_offset),
                                         (tc.SmpteTimeCode, "to_frames", _cut_to_frames),
                                         (tc.SmpteTimeCode, "from_frames", staticmethod(_cut_from_frames))]

  gen_name = None

  def generate(self, gen, params):
    return getattr(gen, self.gen_name)()

  def body(self, ex, params):
    df = bool(params["df"])
    rate = DF if df else NDF
    parity = bool(params["parity"])
    n0 = ex.integer("n0", 0, 24 * 3600 * 30 - 20000)
    gen = Gen(ex, params["lim"])
    words = self.generate(gen, params)
    tags = sorted(gen.tags)
    # SCC lines: line k starts at frame base[k]; a line starts no earlier than the end of the previous line's words
    starts = [0] + gen.breaks
    lines = [words[a:b] for a, b in zip(starts, starts[1:] + [len(words)])]
    bases = [n0]
    for k in range(1, len(lines)):
      gap = ex.integer("gap%d" % k, 0, 3000)
      bases.append(bases[-1] + len(lines[k - 1]) + gap)
    line_of = []
    for k, ws in enumerate(lines):
      line_of += [(k, i) for i in range(len(ws))]
    self._frames = (bases, line_of)
    if ex.symbolic:
      _Cut.bases, _Cut.k, _Cut.rate = bases, 0, rate
      text = build_text(lines, parity, df)
    else:
      text = build_text(lines, parity, df, [int(b) for b in bases])
    align = [None, TextAlignment.LEFT, TextAlignment.AUTO][params.get("align", 0)]
    cfg = SccReaderConfiguration(text_align=align) if align is not None else None
    doc, exc = call(ex, scc_reader.to_model, text, cfg)
    det = {"mode": params["mode"], "ctx": [t for t in tags if t in CTX_TAGS], "_tags": tags}
    if exc:
      ex.fail("C18:scc-reader-raises", dict(det, site=exc[1], exc=type(exc[0]).__name__,
                                            _words=" / ".join(render_words(ws, False) for ws in lines)))
      return
    if "C08" not in ex.active:
      return
    ref = Ref608()
    for i, w in enumerate(words):
      ref.feed(i, w)
    want = runs(ref.events)
    got = doc_paragraphs(doc)
    det["_words"] = " / ".join(render_words(ws, False) for ws in lines)
    for t in gen.tags:
      ex.witness("tag:" + t)
    n0z = None
    texts = lambda rows: [t for _, t, _ in rows]
    gi = 0
    for (i_in, k_in, snaps, i_out, k_out) in want:
      final = snaps[-1][1]
      # paragraphs showing an earlier state of the same run (finer granularity than the run) come first, in order
      si = 0
      chain = []
      while gi < len(got) and texts(got[gi][3]) != texts(final):
        m = [j for j in range(si, len(snaps) - 1) if texts(snaps[j][1]) == texts(got[gi][3])]
        if not m:
          break
        chain.append((got[gi], snaps[m[0]]))
        si = m[0] + 1
        gi += 1
      if gi >= len(got):
        ex.fail("C08:caption-count", dict(det, got=len(got), want=len(want), _missing=texts(final)))
        return
      chain.append((got[gi], snaps[-1]))
      gi += 1
      if len(chain) > 1:
        ex.witness("run-split-into-paragraphs")
      for ci, ((b, e, region, rows), (s_idx, wrows)) in enumerate(chain):
        # content: same characters on the same rows, in row order
        same = texts(rows) == texts(wrows)
        ex.prove(same, "C08:row-texts", dict(det, _got=texts(rows), _want=texts(wrows)))
        if same:
          ex.prove(all(pens_match(s, ws) for (_, _, s), (_, _, ws) in zip(rows, wrows)), "C08:pen-styles",
                   dict(det, _got=repr([s for _, _, s in rows]), _want=repr([s for _, _, s in wrows])))
        if rows and wrows and len(rows) == len(wrows):
          # row positions: row offsets inside the paragraph and the region's top row
          offs = [o - rows[0][0] for o, _, _ in rows]
          woffs = [r - wrows[0][0] for r, _, _ in wrows]
          ex.prove(offs == woffs, "C08:row-gaps", dict(det, _got=offs, _want=woffs))
          if params["mode"] != "roll":
            origin = region.get_style(SP.Origin) if region is not None else None
            if origin is not None and origin.y.units is styles.LengthType.Units.pct:
              cr = doc.get_cell_resolution().rows
              top = origin.y.value * cr / 100 - 2 + 1 + rows[0][0]
              ex.prove(abs(top - wrows[0][0]) <= 0.5, "C08:top-row", dict(det, _got=float(top), _want=wrows[0][0]))
              if origin.x.units is styles.LengthType.Units.pct and getattr(wrows, "left", None) is not None:
                # the caption's left edge: left-most occupied cell of the screen (safe area starts 4 cells into the 40-cell root)
                left = origin.x.value * doc.get_cell_resolution().columns / 100 - 4
                ex.prove(abs(left - wrows.left) <= 0.5, "C08:left-column", dict(det, _got=float(left), _want=wrows.left))
            else:
              ex.fail("C08:top-row", dict(det, why="no percentage origin"))
          else:
            # roll-up: the region is bottom-anchored (displayAlign after): the paragraph's last row sits on row 15
            da = region.get_style(SP.DisplayAlign) if region is not None else None
            ex.prove(da is styles.DisplayAlignType.after, "C08:top-row", dict(det, why="roll-up region not bottom-anchored"))
            ex.prove(wrows[-1][0] == 15, "C08:top-row",
                     dict(det, why="roll-up rows shown lower than decoded (bottom row empty)", shift=15 - wrows[-1][0]))
        # times
        if ci == 0:
          self.edge(ex, det, "begin", b, n0z, i_in, k_in, rate, words)
        else:
          prev_e = chain[ci - 1][0][1]
          ex.prove(prev_e is not None and b is not None and ex.is_certain(zreal(prev_e) == zreal(b)), "C08:split-contiguous", det)
        if ci == len(chain) - 1:
          if i_out is None:
            ex.prove(e is None, "C08:end-in-window", dict(det, by="end-of-file", pattern="end set although never erased"))
          else:
            self.edge(ex, det, "end", e, n0z, i_out, k_out, rate, words)
    ex.prove(gi == len(got), "C08:caption-count", dict(det, got=len(got), want=len(want), _extra=[texts(g[3]) for g in got[gi:]]))
    ex.witness("captions-compared", len(want) > 0)

  def edge(self, ex, det, which, val, n0z, idx, kind, rate, words):
    """val must lie in the transmission window of word idx: [base+i, base+i+1] frames of its line"""
    aid = "C08:%s-in-window" % which
    if val is None:
      ex.fail(aid, dict(det, by=kind, pattern="missing"))
      return
    bases, line_of = self._frames
    ln, off = line_of[idx]
    bz = z3.ToReal(zint(bases[ln]))
    v = zreal(val)
    cond = Or(v == (bz + off) / RV(rate), v == (bz + off + 1) / RV(rate))
    if ex.is_certain(cond):
      ex.prove(cond, aid, dict(det, by=kind))
      return
    # --- classification of the observed offset (finding key only): frames relative to the end of the window, and the
    # frames the reader stamps on the words of this line (it does not count the second copy of a doubled channel-1 code)
    first = idx - off
    skipped = 0
    stamps = set()
    prev = None
    for j in range(0, idx + 1):
      w = words[j]
      is_ctrl = 0x10 <= (w >> 8) <= 0x1F
      if j == first:
        skipped = 0
      if is_ctrl and (w >> 8) & 0x08:
        continue
      if prev is not None and prev == w and is_ctrl:
        if j >= first:
          skipped += 1
        prev = None
        continue
      if is_ctrl and first <= j < idx:
        stamps.add(j - first + 1 - skipped)
      if w != 0:
        prev = w
    pattern = "other"
    d_term = z3.simplify(v * RV(rate) - bz - (off + 1))
    if z3.is_rational_value(d_term) and d_term.denominator_as_long() == 1:
      d = d_term.numerator_as_long()
      if d == -skipped:
        pattern = "late-by-0-minus-doubled-ch1-codes-before"
      elif d == 1 - skipped and kind == "EDM":
        pattern = "late-by-1-minus-doubled-ch1-codes-before"
      elif kind == "text" and d < -1 and (off + 1 + d) in stamps:
        pattern = "shown-before-received-at-an-earlier-code"
      else:
        pattern = "delta=%d,doubled=%d" % (d, skipped)
    elif ln > 0:
      pattern = "stamped-on-another-line"
    ex.prove(cond, aid, dict(det, by=kind, pattern=pattern, doubled_before=skipped > 0))


class PopOnHarness(SccHarness):
  name = "c08_popon"
  required_witnesses = ("captions-compared", "tag:erased-by-EDM", "tag:replaced-by-EOC", "tag:replaced-by-empty-EOC", "tag:multi-line",
                        "tag:flipped-memory-rows-kept", "tag:channel-2-twin-code")
  bounds = {"quick": "1-3 SCC lines, the first at a symbolic start frame n0 in [0, 24h), each later one a symbolic gap of 0..3000 frames after the previous line's last word, x {NDF, DF} x parity {set, cleared}; pop-on grammar RCL ENM rows [nulls] EOC then {EOF | EDM | second caption + EOC [EDM] | empty "
                     "flip}, explored in 4 families: placement (6 rows x 6 PACs x tab 0/1/3), text items (1-2 of 10 after 2 PACs), "
                     "two-row captions (ordered pairs of 4 rows x 2 PACs x 3 items), varied second caption",
            "thorough": "same families with larger menus plus three-row captions, EDM before EOC, interleaved channel-2 block, single "
                        "(undoubled) control codes, text_align {default, LEFT, AUTO}, third caption composed without ENM"}
  budget_s = {"quick": 400, "thorough": 3000}

  def partitions(self, tier):
    out = []

    def add(lim, combos, ml=False):
      for df, parity, align in combos:
        out.append({"mode": "pop", "df": df, "parity": parity, "align": align, "lim": lim})
        if ml:   # the same family with every caption on its own SCC line (own symbolic time code)
          out.append({"mode": "pop", "df": 1 - df, "parity": parity, "align": align, "lim": dict(lim, multi_line=1)})

    all4 = [(0, 0, 0), (0, 1, 0), (1, 0, 0), (1, 1, 0)]
    two = [(0, 1, 0), (1, 0, 2)]
    if tier == "quick":
      # placement: every row x PAC x tab offset, one text item, every tail
      add(dict(rows_menu=FULL["rows_menu"], pacs=FULL["pacs"], tabs=FULL["tabs"], nulls=2, tails=[0, 1, 2, 3]), all4)
      add(dict(rows_menu=[0, 2], pacs=[0, 3], tabs=[0, 1], nulls=2, tails=[1, 2, 3], ch2_twin=1), two[:1], ml=True)
      # text items: 1-2 of the 10 items after a plain and an italics PAC
      add(dict(pacs=[0, 5], item_menu=FULL["item_menu"], items=2, tails=[0, 1]), two)
      # two rows: ordered pairs of 4 rows, 2 PACs, 3 items each
      add(dict(rows_menu=[0, 1, 2, 5], pacs=[0, 3], item_menu=[0, 6, 7], rows=[2], tails=[0, 2]), two)
      # third caption composed without ENM over the memory flipped out two captions earlier
      add(dict(rows_menu=[0, 1], tails=[4], second=dict(rows_menu=[0, 1, 2], pacs=[0, 5], item_menu=[1, 7])), two[:1])
      # second caption varied
      add(dict(tails=[2], second=dict(rows_menu=[0, 1, 2, 3], pacs=[0, 3, 5], tabs=[0, 1], item_menu=[0, 3, 5, 6], nulls=2)), two, ml=True)
    else:
      aligns = [(0, 0, 0), (0, 1, 1), (1, 0, 2), (1, 1, 0)]
      add(dict(rows_menu=FULL["rows_menu"], pacs=FULL["pacs"], tabs=FULL["tabs"], item_menu=[0, 3, 6], nulls=2, tails=[0, 1, 2, 3],
               single_ok=1), all4)
      add(dict(pacs=[0, 3, 5], tabs=[0, 2], item_menu=FULL["item_menu"], items=2, tails=[0, 1], ch2=1, edm_before_eoc=1, ch2_twin=1), aligns)
      add(dict(rows_menu=FULL["rows_menu"], pacs=[0, 3], item_menu=[0, 6, 7], rows=[2], tails=[0, 2], single_ok=1), aligns)
      add(dict(rows_menu=[0, 1, 2, 5], pacs=[0, 5], item_menu=[0, 7], rows=[3], tails=[0, 1]), aligns)
      add(dict(tails=[2], ch2=1, second=dict(rows_menu=FULL["rows_menu"], pacs=FULL["pacs"], tabs=[0, 1], item_menu=[0, 3, 5, 6],
                                              nulls=2)), aligns, ml=True)
      add(dict(rows_menu=FULL["rows_menu"], pacs=[0, 3, 5], tabs=[0, 1], nulls=2, tails=[1, 2, 3, 4], single_ok=1), two, ml=True)
      add(dict(tails=[2], second=dict(rows_menu=[0, 1], pacs=[0, 3], item_menu=FULL["item_menu"], items=2)), two)
      # composing over the flipped-out memory (no ENM): same rows on purpose
      add(dict(rows_menu=[0, 1], pacs=[0, 1, 3], tabs=[0, 1], item_menu=[0, 6], tails=[4],
               second=dict(rows_menu=[0, 1, 2], pacs=[0, 5], tabs=[0, 1], item_menu=[1, 2, 7])), two)
    return out

  gen_name = "popon"


register(PopOnHarness())


class RollUpHarness(SccHarness):
  name = "c08_rollup"
  gen_name = "rollup"
  required_witnesses = ("captions-compared", "tag:erased-by-EDM", "tag:RU2", "tag:RU3", "tag:RU4", "tag:multi-line")
  assumptions = SccHarness.assumptions + (
    "roll-up and paint-on are compared run by run: a run is the display between two structural changes (roll, erase, flip); "
    "the document may split a run into contiguous paragraphs showing successive received states; the text of a run is "
    "compared in its final state and the run's begin against the window of the word that first made it visible",)
  outside = SccHarness.outside + ("roll-up base rows other than 15 (PAC rows move the window), depth changes mid-stream",)
  bounds = {"quick": "RU2/3/4 [CR] then 1-3 lines {[CR] PAC(row 15, 2 indents) [TO1] one of 4 text items [nulls]} then "
                     "{EOF | EDM | EDM + a further line | CR}; symbolic n0; 2 of the 4 {NDF,DF} x parity combinations",
            "thorough": "1-4 lines, 3 PACs, tab 0/1/3, 1-2 of 6 items, optional PAC, channel-2 block, single control codes, "
                        "blank lines (CR on an empty row), all 4 rate/parity combinations x text_align"}
  budget_s = {"quick": 400, "thorough": 3000}

  def partitions(self, tier):
    out = []

    def add(lim, combos, ml=True):
      for df, parity, align in combos:
        out.append({"mode": "roll", "df": df, "parity": parity, "align": align, "lim": lim})
        if ml:   # the same family with every roll-up line on its own SCC line (own symbolic time code)
          out.append({"mode": "roll", "df": 1 - df, "parity": parity, "align": align, "lim": dict(lim, multi_line=1)})

    two = [(0, 1, 0), (1, 0, 2)]
    all4 = [(0, 0, 0), (0, 1, 1), (1, 0, 2), (1, 1, 0)]
    if tier == "quick":
      # depth x number of lines
      add(dict(depths=[2, 3, 4], item_menu=[0, 5], lines=3, tails=[0, 1, 2, 3]), two)
      # two lines: first line varied, second line lighter
      add(dict(depths=[2], pacs=[0, 1], tabs=[0, 1], item_menu=[0, 3, 5, 6], nulls=2, lines=[2], tails=[0, 1, 2, 3],
               per_line=[{}, dict(item_menu=[0, 6], nulls=1)]), two)
    else:
      add(dict(depths=[2, 3, 4], item_menu=[0, 5, 6], lines=4, tails=[0, 1, 2, 3]), all4)
      for depth in (2, 3, 4):
        add(dict(depths=[depth], pacs=[0, 1, 3], tabs=[0, 1, 2], item_menu=[0, 3, 5, 6, 7, 9], nulls=2, lines=[2],
                 tails=[0, 1, 2, 3], per_line=[{}, dict(pacs=[0, 1], tabs=[0, 1], item_menu=[0, 6, 7], nulls=1)]), all4)
      add(dict(depths=[2, 4], pacs=[0, 1], item_menu=[0, 6], items=2, lines=[3], tails=[0, 1, 3],
               per_line=[{}, dict(pacs=[0], items=1), dict(pacs=[0])]), two)
      add(dict(depths=[2, 3], pacs=[0, 1], tabs=[0, 1], item_menu=[0, 3, 5], lines=[3], tails=[0, 1, 2],
               pac_optional=1, ch2=1, single_ok=1, per_line=[{}, dict(tabs=[0], item_menu=[0, 5]), dict(tabs=[0], item_menu=[0])]), two)
      add(dict(depths=[2, 3], tabs=[0, 1], item_menu=[0, 5], lines=3, tails=[0, 1, 3], blank_lines=1), two)
    return out


class PaintOnHarness(SccHarness):
  name = "c08_painton"
  gen_name = "painton"
  required_witnesses = ("captions-compared", "tag:erased-by-EDM", "run-split-into-paragraphs", "tag:multi-line")
  assumptions = RollUpHarness.assumptions
  bounds = {"quick": "RDC then 1-2 rows {PAC (4 rows x 3 PACs) [TO1] 1-2 of 10 text items [nulls]} then {EOF | EDM | EDM + new row | "
                     "first row written again}; symbolic n0; 2 of the 4 {NDF,DF} x parity combinations",
            "thorough": "6 rows x 6 PACs x tab 0/1/3, 1-3 rows, channel-2 block, single control codes, all 4 rate/parity "
                        "combinations x text_align"}
  budget_s = {"quick": 400, "thorough": 3000}

  def partitions(self, tier):
    out = []

    def add(lim, combos, ml=False):
      for df, parity, align in combos:
        out.append({"mode": "paint", "df": df, "parity": parity, "align": align, "lim": lim})
        if ml:   # the same family with every row on its own SCC line (own symbolic time code)
          out.append({"mode": "paint", "df": 1 - df, "parity": parity, "align": align, "lim": dict(lim, multi_line=1)})

    two = [(0, 1, 0), (1, 0, 2)]
    all4 = [(0, 0, 0), (0, 1, 1), (1, 0, 2), (1, 1, 0)]
    if tier == "quick":
      add(dict(rows_menu=[0, 1, 2, 5], pacs=[0, 3, 5], tabs=[0, 1], item_menu=[0, 3, 6], rows=2, nulls=2, tails=[0, 1, 2, 3],
               per_line=[{}, dict(pacs=[0], tabs=[0], item_menu=[0, 6], nulls=1)]), two, ml=True)
      add(dict(pacs=[0, 5], item_menu=list(range(10)), items=2, tails=[0, 1]), two)
    else:
      add(dict(rows_menu=FULL["rows_menu"], pacs=FULL["pacs"], tabs=FULL["tabs"], item_menu=[0, 3, 6], nulls=2, tails=[0, 1, 2, 3],
               single_ok=1), all4)
      add(dict(rows_menu=[0, 1, 2, 5], pacs=[0, 3, 5], tabs=[0, 1], item_menu=[0, 3, 5, 6, 7], rows=[2], nulls=2,
               tails=[0, 1, 2, 3], ch2=1, per_line=[{}, dict(pacs=[0, 5], tabs=[0], item_menu=[0, 6, 7], nulls=1)]), all4, ml=True)
      add(dict(pacs=[0, 3, 5], tabs=[0, 2], item_menu=list(range(10)), items=2, tails=[0, 1, 3]), all4)
      add(dict(rows_menu=[0, 1, 2, 5], pacs=[0, 5], item_menu=[0, 7], rows=[3], tails=[0, 1, 3]), two)
    return out


register(RollUpHarness())
register(PaintOnHarness())


# ---------------------------------------------------------------------------
# robustness: every short sequence over a menu of words, in any order (also sequences no protocol allows)

ROBUST_MENU = [w_misc("RCL"), w_misc("RU2"), w_misc("RDC"), w_misc("EDM"), w_misc("ENM"), w_misc("EOC"), w_misc("CR"),
               w_misc("BS"), w_misc("DER"), w_tab(1), w_pac(15, indent=4), w_pac(2, color="red"), w_midrow(italic=True), w_special(7),
               w_ext(1, 0), w_text("AB"), w_text(" "), w_misc("RCL", 2), 0x0000, 0x1020, 0x172D]


class SccRobustHarness(Harness):
  name = "c08_robust"
  properties = ("C18",)
  functions = SccHarness.functions
  assumptions = ("word sequences are drawn by selector variables from a %d-word menu (every mode code, erase/flip/roll codes, backspace, "
                 "delete to end of row, tab offset, PACs, mid-row, special, extended, text, channel-2 code, null, background attribute "
                 "codes); every control word is sent once or doubled as a whole-stream choice" % len(ROBUST_MENU),)
  outside = ("sequences longer than the bound",)
  required_witnesses = ("document-returned",)
  bounds = {"quick": "all sequences of 1-3 menu words after each of the %d possible first words, single and doubled" % len(ROBUST_MENU),
            "thorough": "all sequences of 1-4 menu words"}
  budget_s = {"quick": 300, "thorough": 2400}
  validate_models = 2

  def partitions(self, tier):
    return [{"first": i, "doubled": d} for i in range(len(ROBUST_MENU)) for d in (0, 1)]

  def body(self, ex, params):
    n = 3 if ex.tier == "quick" else 4
    seq = [ROBUST_MENU[params["first"]]]
    for k in range(1, n):
      c = ex.choice("w%d" % k, len(ROBUST_MENU) + 1)
      if c == len(ROBUST_MENU):
        break
      seq.append(ROBUST_MENU[c])
    words = []
    for w in seq:
      words.append(w)
      if params["doubled"] and 0x10 <= (w >> 8) <= 0x1F:
        words.append(w)
    text = build_text([words], True, False, [0])
    doc, exc = call(ex, scc_reader.to_model, text, None)
    det = {"_words": render_words(words, False)}
    if exc:
      if not isinstance(exc[0], ValueError):
        ex.fail("C18:scc-reader-raises", dict(det, site=exc[1], exc=type(exc[0]).__name__))
      return
    ex.witness("document-returned")
    from ttconv.isd import ISD
    _, exc = call(ex, ISD.generate_isd_sequence, doc)
    if exc:
      ex.fail("C18:snapshot-raises", dict(det, site=exc[1], exc=type(exc[0]).__name__, tags=["scc-robust"]))


register(SccRobustHarness())
