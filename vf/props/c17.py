"""C17 every 16-bit CEA-608 word: total, unambiguous, per-table decoding.
Byte 1 is case-split (256 concrete values), byte 2 is a symbolic integer in [0,255]; the real
SccWord.from_bytes / code tables run on it; the reference R-608-TABLE is a z3 term over the parity-stripped bytes,
written from the CEA-608 / 47 CFR 15.119 bit-pattern description (no table of ttconv is read by the oracle)."""
from __future__ import annotations

import z3

import ttconv.scc.word as word_mod
import ttconv.scc.codes as codes_mod
import ttconv.scc.codes.preambles_address_codes as pac_mod
import ttconv.scc.codes.mid_row_codes as mrc_mod
import ttconv.scc.codes.standard_characters as std_mod
from ttconv.scc.word import SccWord
from ttconv.scc.codes import SccChannel
from ttconv.scc.codes.attribute_codes import SccAttributeCode
from ttconv.scc.codes.control_codes import SccControlCode
from ttconv.scc.codes.extended_characters import SccExtendedCharacter
from ttconv.scc.codes.mid_row_codes import SccMidRowCode
from ttconv.scc.codes.preambles_address_codes import SccPreambleAddressCode
from ttconv.scc.codes.special_characters import SccSpecialCharacter
from ttconv.style_properties import FontStyleType

from .. import symrun
from ..symrun import And, Or, Not, zint, call, SymDict, SymNum
from ..runner import Harness, register

PADDING, PRINTABLE, PAC, MIDROW, CONTROL, ATTRIBUTE, SPECIAL, EXTENDED, UNKNOWN = range(9)
CLASS_NAMES = ["padding", "printable", "pac", "mid-row", "control", "attribute", "special", "extended", "unknown"]

MISC = ["RCL", "BS", "AOF", "AON", "DER", "RU2", "RU3", "RU4", "FON", "RDC", "TR", "RTD", "EDM", "CR", "ENM", "EOC"]
# colour families: which of r,g,b are lit
FAMILY = {"white": (1, 1, 1), "green": (0, 1, 0), "blue": (0, 0, 1), "cyan": (0, 1, 1), "red": (1, 0, 0),
          "yellow": (1, 1, 0), "magenta": (1, 0, 1), "black": (0, 0, 0)}
COLORS7 = ["white", "green", "blue", "cyan", "red", "yellow", "magenta"]
COLORS8 = COLORS7 + ["black"]
STD_SUBST = {0x2A: 0xE1, 0x5C: 0xE9, 0x5E: 0xED, 0x5F: 0xF3, 0x60: 0xFA, 0x7B: 0xE7, 0x7C: 0xF7, 0x7D: 0xD1, 0x7E: 0xF1,
             0x7F: 0x2588}
SPECIALS = [0xAE, 0xB0, 0xBD, 0xBF, 0x2122, 0xA2, 0xA3, 0x266A, 0xE0, 0x20, 0xE8, 0xE2, 0xEA, 0xEE, 0xF4, 0xFB]
# extended sets: list of acceptable code points per code (b2 0x20..0x3F)
EXT1 = [[0xC1], [0xC9], [0xD3], [0xDA], [0xDC], [0xFC], [0x2018], [0xA1], [0x2A], [0x27], [0x2014, 0x2015, 0x2500, 0x2501],
        [0xA9], [0x2120], [0x2022, 0x25CF], [0x201C], [0x201D],
        [0xC0], [0xC2], [0xC7], [0xC8], [0xCA], [0xCB], [0xEB], [0xCE], [0xCF], [0xEF], [0xD4], [0xD9], [0xF9], [0xDB],
        [0xAB], [0xBB]]
EXT2 = [[0xC3], [0xE3], [0xCD], [0xCC], [0xEC], [0xD2], [0xF2], [0xD5], [0xF5], [0x7B], [0x7D], [0x5C],
        [0x5E, 0x2C6, 0x28C], [0x5F], [0x7C, 0xA6], [0x7E],
        [0xC4], [0xE4], [0xD6], [0xF6], [0xDF], [0xA5], [0xA4], [0x7C, 0x2502, 0x2503], [0xC5], [0xE5], [0xD8], [0xF8],
        [0x250C, 0x250F, 0x23A1], [0x2510, 0x2513, 0x23A4], [0x2514, 0x2517, 0x23A3], [0x2518, 0x251B, 0x23A6]]
ROWS = {1: (1, 2), 2: (3, 4), 5: (5, 6), 6: (7, 8), 7: (9, 10), 0: (11, None), 3: (12, 13), 4: (14, 15)}


def ref_class(s1: int, s2):
  """class id (z3 Int term) of the parity-stripped word (s1 concrete, s2 z3 Int in [0,127])"""
  I = z3.IntVal
  if s1 == 0:
    return z3.If(s2 == 0, I(PADDING), I(UNKNOWN))
  if s1 >= 0x20:
    return I(PRINTABLE)
  if s1 < 0x10:
    return I(UNKNOWN)
  c = s1 & 0x07
  pac_ok = z3.And(s2 >= 0x40, s2 <= 0x7F) if c != 0 else z3.And(s2 >= 0x40, s2 <= 0x5F)
  lo = z3.And(s2 >= 0x20, s2 <= 0x2F)
  hi = z3.And(s2 >= 0x30, s2 <= 0x3F)
  if c == 0:
    rest = z3.If(lo, I(ATTRIBUTE), I(UNKNOWN))
  elif c == 1:
    rest = z3.If(lo, I(MIDROW), z3.If(hi, I(SPECIAL), I(UNKNOWN)))
  elif c in (2, 3):
    rest = z3.If(z3.Or(lo, hi), I(EXTENDED), I(UNKNOWN))
  elif c in (4, 5):
    rest = z3.If(lo, I(CONTROL), I(UNKNOWN))
  elif c == 7:
    rest = z3.If(z3.And(s2 >= 0x21, s2 <= 0x23), I(CONTROL), z3.If(z3.And(s2 >= 0x2D, s2 <= 0x2F), I(ATTRIBUTE), I(UNKNOWN)))
  else:
    rest = I(UNKNOWN)
  return z3.If(pac_ok, I(PAC), rest)


def ref_channel(s1: int, s2, cls):
  """0 = none, 1, 2: channel the word is attributed to (field-2 miscellaneous control codes: none)"""
  if not 0x10 <= s1 <= 0x1F:
    return z3.IntVal(0)
  ch = 2 if s1 & 0x08 else 1
  c = s1 & 0x07
  if c == 5:
    # 0x15/0x1D + 0x20-0x2F are the field-2 forms of the miscellaneous control codes; PACs (rows 5/6) keep their channel
    return z3.If(cls == CONTROL, z3.IntVal(0), z3.If(cls == UNKNOWN, z3.IntVal(0), z3.IntVal(ch)))
  return z3.If(cls == UNKNOWN, z3.IntVal(0), z3.IntVal(ch))


def observed_class(w):
  code = w.get_code()
  if code is None:
    if w.byte_1 == 0 and w.byte_2 == 0:   # each comparison is solver-decided when byte_2 is symbolic
      return PADDING
    if w.byte_1 >= 0x20:
      return PRINTABLE
    return UNKNOWN
  for t, k in ((SccPreambleAddressCode, PAC), (SccMidRowCode, MIDROW), (SccControlCode, CONTROL),
               (SccAttributeCode, ATTRIBUTE), (SccSpecialCharacter, SPECIAL), (SccExtendedCharacter, EXTENDED)):
    if isinstance(code, t):
      return k
  return UNKNOWN


def family_of(color):
  return tuple(1 if x > 0 else 0 for x in color.components[:3])


def sym_chr(x):
  if isinstance(x, SymNum):
    return chr(symrun.cur().concretize(x, 0, 255))
  return chr(x)


def sym_hex(x):
  if isinstance(x, SymNum):
    return symrun.cur().new_hole(x, "#x")   # only ever used inside error messages
  return hex(x)


class WordHarness(Harness):
  name = "c17_word"
  properties = ("C17",)
  functions = ("scc.word:SccWord.from_bytes", "scc.word:SccWord.from_value", "scc.word:SccWord._find_code",
               "scc.word:SccWord.get_channel", "scc.word:SccWord.to_text",
               "scc.codes.preambles_address_codes:SccPreambleAddressCode.__init__",
               "scc.codes.control_codes:SccControlCode.find", "scc.codes.attribute_codes:SccAttributeCode.find",
               "scc.codes.mid_row_codes:SccMidRowCode.find", "scc.codes.special_characters:SccSpecialCharacter.find",
               "scc.codes.extended_characters:SccExtendedCharacter.find")
  assumptions = (
    "dict tables looked up with the symbolic byte (_ROW_MAPPING, SCC_COLOR_MAPPING, SCC_STANDARD_CHARACTERS_MAPPING) are "
    "wrapped so that .get compares entry by entry (same semantics, forks instead of hashing)",
    "chr(symbolic) is concretised by solver-decided binary search (every value of the byte is covered by some path)",
    "colours are compared by family (which of R,G,B are lit) and opacity class, since CEA-608 names colours, not RGB",
    "for em dash, bullet, caret, vertical bar and the four corner glyphs a set of acceptable code points is used",
  )
  outside = ("nothing inside the 16-bit word space for classification, channel and attributes",
             "text-mode / XDS semantics of first bytes 0x01-0x0F (classified 'unknown')")
  required_witnesses = tuple("class-" + n for n in CLASS_NAMES) + ("channel-none-field2",)
  bounds = {"quick": "all 65 536 words: byte 1 case-split over its 256 values, byte 2 symbolic in [0,255] (solver verdict per path)",
            "thorough": "same (an additional SccWord.from_value pass over the symbolic 16-bit value did not finish within 19 minutes and was dropped)"}
  budget_s = {"quick": 280, "thorough": 1500}
  validate_models = 8

  def partitions(self, tier):
    parts = []
    for base in (0x00, 0x80):
      parts.append({"b1": list(range(base, base + 0x10))})
      parts += [{"b1": [k, k + 1]} for k in range(base + 0x10, base + 0x20, 2)]
      parts += [{"b1": list(range(k, k + 8))} for k in range(base + 0x20, base + 0x80, 8)]
    return parts

  def patches(self, params):
    return [
      (pac_mod, "_ROW_MAPPING", SymDict(pac_mod._ROW_MAPPING)),
      (pac_mod, "SCC_COLOR_MAPPING", SymDict(codes_mod.SCC_COLOR_MAPPING)),
      (mrc_mod, "SCC_COLOR_MAPPING", SymDict(codes_mod.SCC_COLOR_MAPPING)),
      (word_mod, "SCC_STANDARD_CHARACTERS_MAPPING", SymDict(std_mod.SCC_STANDARD_CHARACTERS_MAPPING)),
      (word_mod, "chr", sym_chr),
      (word_mod, "hex", sym_hex),
      (pac_mod, "hex", sym_hex),
    ]

  def body(self, ex, params):
    b1 = params["b1"][ex.choice("b1", len(params["b1"]))]
    b2 = ex.integer("b2", 0, 255)
    w, exc = call(ex, SccWord.from_bytes, b1, b2)
    if exc:
      ex.fail("C18:scc-word-raises", {"site": exc[1], "exc": type(exc[0]).__name__})
      ex.fail("C17:total", {"site": exc[1], "exc": type(exc[0]).__name__})
      return
    s1 = b1 & 0x7F
    s2 = zint(b2) % 128
    obs = observed_class(w)
    cls = ref_class(s1, s2)
    ex.witness("class-" + CLASS_NAMES[obs])
    det = {"b1": hex(b1), "observed": CLASS_NAMES[obs]}
    if not ex.prove(cls == obs, "C17:class", det):
      return
    # channel
    ch = w.get_channel()
    och = {None: 0, SccChannel.CHANNEL_1: 1, SccChannel.CHANNEL_2: 2}[ch]
    ex.prove(ref_channel(s1, s2, cls) == och, "C17:channel", det)
    if och == 0 and obs == CONTROL:
      ex.witness("channel-none-field2")
    code = w.get_code()
    c = s1 & 0x07
    if obs == PAC:
      rows = ROWS[c]
      exp_row = z3.If(s2 >= 0x60, z3.IntVal(rows[1] if rows[1] else -1), z3.IntVal(rows[0]))
      ex.prove(exp_row == zint(code.get_row()), "C17:pac-row", det)
      a = (s2 % 32) / 2
      ex.prove((s2 % 2 == 1) == (code.get_text_decoration() is not None and code.get_text_decoration().underline is True),
               "C17:pac-underline", det)
      ind = code.get_indent()
      ex.prove(z3.If(a >= 8, (a - 8) * 4, z3.IntVal(0)) == (zint(ind) if ind is not None else 0), "C17:pac-indent", det)
      ex.prove((a == 7) == (code.get_font_style() is FontStyleType.italic), "C17:pac-italic", det)
      col = code.get_color()
      fam = family_of(col) if col is not None else (1, 1, 1)
      exp = z3.Or(*[z3.And(a == i, z3.BoolVal(FAMILY[n] == fam)) for i, n in enumerate(COLORS7)] +
                  [z3.And(a >= 7, z3.BoolVal(fam == (1, 1, 1)))])
      ex.prove(exp, "C17:pac-color", det)
    elif obs == MIDROW:
      a = (s2 - 0x20) / 2
      td = code.get_text_decoration()
      ex.prove((s2 % 2 == 1) == (td is not None and td.underline is True), "C17:midrow-underline", det)
      ex.prove((a == 7) == (code.get_font_style() is FontStyleType.italic), "C17:midrow-italic", det)
      col = code.get_color()
      if col is not None:
        fam = family_of(col)
        ex.prove(z3.Or(*[z3.And(a == i, z3.BoolVal(FAMILY[n] == fam)) for i, n in enumerate(COLORS7)]), "C17:midrow-color", det)
      else:
        ex.prove(a == 7, "C17:midrow-color", det)
    elif obs == CONTROL:
      if c == 7:
        exp = z3.Or(*[z3.And(s2 == 0x21 + i, z3.BoolVal(code.name == "TO%d" % (i + 1))) for i in range(3)])
      else:
        exp = z3.Or(*[z3.And(s2 == 0x20 + i, z3.BoolVal(code.name == n)) for i, n in enumerate(MISC)])
      ex.prove(exp, "C17:control-code", dict(det, name=code.name))
    elif obs == ATTRIBUTE:
      col = code.get_color()
      alpha = col.components[3]
      if c == 0:
        a = (s2 - 0x20) / 2
        exp = z3.Or(*[z3.And(a == i, z3.BoolVal(FAMILY[n] == family_of(col))) for i, n in enumerate(COLORS8)])
        ex.prove(exp, "C17:attribute-color", dict(det, name=code.name))
        ex.prove(z3.If(s2 % 2 == 0, z3.BoolVal(alpha == 255), z3.BoolVal(0 < alpha < 255)), "C17:attribute-opacity", dict(det, name=code.name))
        ex.prove(code.is_background() and code.get_text_decoration() is None, "C17:attribute-kind", dict(det, name=code.name))
      else:
        exp = z3.Or(z3.And(s2 == 0x2D, z3.BoolVal(code.is_background() and alpha == 0 and code.get_text_decoration() is None)),
                    z3.And(s2 == 0x2E, z3.BoolVal((not code.is_background()) and family_of(col) == (0, 0, 0) and code.get_text_decoration() is None)),
                    z3.And(s2 == 0x2F, z3.BoolVal((not code.is_background()) and family_of(col) == (0, 0, 0) and
                                                  code.get_text_decoration() is not None and code.get_text_decoration().underline is True)))
        ex.prove(exp, "C17:attribute-kind", dict(det, name=code.name))
    elif obs == SPECIAL:
      cp = ord(code.get_unicode_value())
      ex.prove(z3.Or(*[z3.And(s2 == 0x30 + i, z3.BoolVal(cp == v)) for i, v in enumerate(SPECIALS)]), "C17:special-character", dict(det, char=hex(cp)))
    elif obs == EXTENDED:
      cp = ord(code.get_unicode_value())
      table = EXT1 if c == 2 else EXT2
      ex.prove(z3.Or(*[z3.And(s2 == 0x20 + i, z3.BoolVal(cp in v)) for i, v in enumerate(table)]), "C17:extended-character", dict(det, char=hex(cp)))
    elif obs == PRINTABLE:
      text, exc = call(ex, w.to_text)
      if exc:
        ex.fail("C17:total", {"site": exc[1], "exc": type(exc[0]).__name__})
        return
      # after to_text the second byte is concrete on this path
      exp1 = STD_SUBST.get(s1, s1)
      def ref_char(z):
        t = z
        for k, v in STD_SUBST.items():
          t = z3.If(z == k, z3.IntVal(v), t)
        return t
      ok2 = z3.And(s2 >= 0x20)
      if len(text) == 2:
        ex.prove(z3.Implies(ok2, z3.And(ref_char(s2) == ord(text[1]), z3.BoolVal(ord(text[0]) == exp1))), "C17:standard-character", det)
      elif len(text) == 1:
        ex.prove(z3.And(s2 == 0, z3.BoolVal(ord(text[0]) == exp1)), "C17:standard-character", det)
      else:
        ex.fail("C17:standard-character", det)


register(WordHarness())


# ---------------------------------------------------------------------------
# the disassembly of a line renders every word

import re as _re
from ttconv.scc.line import SccLine
from ttconv.scc.disassembly import get_scc_word_disassembly
from ttconv.time_code import SmpteTimeCode, FPS_30

DIS_MENU = [0x1420, 0x1C20, 0x142C, 0x1C2C, 0x1470, 0x1C70, 0x1152, 0x1952, 0x112E, 0x192E, 0x1721, 0x1F21, 0x1137, 0x1937,
            0x1220, 0x1A20, 0x1320, 0x1020, 0x1820, 0x172D, 0x4142, 0x2000, 0x0000, 0x1520, 0x0141]


class DisassemblyHarness(Harness):
  name = "c17_disassembly"
  properties = ("C17",)
  functions = ("scc.line:SccLine.to_disassembly", "scc.disassembly:get_scc_word_disassembly")
  assumptions = ("lines are sequences of words drawn by selector variables from a %d-word menu: each code class on both channels, "
                 "text, padding, a field-2 code, an unknown word" % len(DIS_MENU),)
  outside = ("words outside the menu (their classification is c17_word's subject)",)
  required_witnesses = ("channel-2-label", "repeated-code-other-channel")
  bounds = {"quick": "all lines of 1-3 menu words, with and without channel labels", "thorough": "same"}
  budget_s = {"quick": 200, "thorough": 600}

  def partitions(self, tier):
    return [{"first": i, "show": s} for i in range(len(DIS_MENU)) for s in (0, 1)]

  def body(self, ex, params):
    seq = [DIS_MENU[params["first"]]]
    for k in range(1, 3):
      c = ex.choice("w%d" % k, len(DIS_MENU) + 1)
      if c == len(DIS_MENU):
        break
      seq.append(DIS_MENU[c])
    show = bool(params["show"])
    words = [SccWord.from_value(w) for w in seq]
    line = SccLine(SmpteTimeCode(0, 0, 1, 0, FPS_30), words)
    got, exc = call(ex, line.to_disassembly, show)
    det = {"show_channels": show, "_words": " ".join("%04x" % w for w in seq)}
    if exc:
      ex.fail("C17:disassembly", dict(det, site=exc[1], exc=type(exc[0]).__name__))
      return
    body = got.split("\t", 1)[1] if "\t" in got else got
    # every word is rendered, in order, exactly as it is rendered on its own
    parts = [get_scc_word_disassembly(w, show) for w in words]
    ex.prove(all(p != "" for p in parts), "C17:disassembly", dict(det, what="a word renders as nothing"))
    ex.prove(body == "".join(parts), "C17:disassembly", dict(det, what="line differs from its words", _got=body, _want="".join(parts)))
    if show:
      # the channel label of every code is the channel the CEA-608 bit pattern gives (bit 3 of the first byte)
      labels = _re.findall(r"CC([12])", body)
      want = ["2" if (w >> 8) & 0x08 else "1" for w in seq if 0x10 <= (w >> 8) <= 0x1F and (w >> 8) & 0x07 not in (5,) and w != 0x172D or w in (0x172D,)]
      want = ["2" if (w >> 8) & 0x08 else "1" for w in seq if 0x10 <= (w >> 8) <= 0x1F and w != 0x1520]
      ex.prove(labels == want, "C17:disassembly", dict(det, what="channel labels", _got=labels, _want=want))
      ex.witness("channel-2-label", "2" in want)
      ex.witness("repeated-code-other-channel", any(a ^ b == 0x0800 for a, b in zip(seq, seq[1:])))


register(DisassemblyHarness())
