"""C12 time-code arithmetic: exact, monotone, invertible."""
from __future__ import annotations

import math
import time
from fractions import Fraction

import z3

import ttconv.time_code as tc
import ttconv.imsc.attributes as imsc_attr

from .. import symrun, holes, fpmode
from ..symrun import And, Or, Not, Implies, zint, zreal, RV, numeric_shadows, call
from ..runner import Harness, register, extra_check

RATES = [(24, 1), (25, 1), (30, 1), (50, 1), (60, 1), (30000, 1001), (60000, 1001), (24000, 1001)]
DAY_S = 24 * 3600


def _label(t):
  return [zint(t.get_hours()), zint(t.get_minutes()), zint(t.get_seconds()), zint(t.get_frames())]


def _lex_lt(a, b):
  """a < b lexicographically (z3)"""
  r = z3.BoolVal(False)
  for x, y in reversed(list(zip(a, b))):
    r = z3.Or(x < y, z3.And(x == y, r))
  return r


class SmpteHarness(Harness):
  name = "c12_smpte"
  properties = ("C12",)
  functions = ("time_code:SmpteTimeCode.from_frames", "time_code:SmpteTimeCode.to_frames",
               "time_code:SmpteTimeCode.add_frames", "time_code:SmpteTimeCode.to_temporal_offset",
               "time_code:SmpteTimeCode.parse", "time_code:SmpteTimeCode.__str__")
  assumptions = (
    "float steps of the form int/const, float(int), float*const are replaced by exact rational arithmetic (SymRatio); "
    "each floor/ceil/int of such a value is justified by the FP lemmas discharged in the same check (c12_fp_lemmas)",
    "CPython renders ints in decimal with the zero padding the format spec requests (hole tokens)",
    "regexes of time_code.py treat the ten digits alike (checked from the parsed pattern at run time)",
  )
  outside = ("frame counts of 24 h and more", "negative frame counts", "add_frames with a negative argument or more than 2 h")
  required_witnesses = ("df-branch", "ndf-branch", "minute-correction")
  bounds = {
    "quick": "every frame count n in [0, 24 h) for each of 8 rates (drop-frame rates case-split by ten-minute block, "
             "each block decided for all its frames by the solver); add_frames(k): k up to the end of the next "
             "ten-minute block (DF) / any k <= 2 h (NDF)",
    "thorough": "same, add_frames target up to 12 ten-minute blocks (2 h) ahead for DF rates",
  }
  budget_s = {"quick": 300, "thorough": 1500}
  validate_models = 4

  def partitions(self, tier):
    parts = []
    for num, den in RATES:
      for group in ("rt", "succ", "add", "parse"):
        if den == 1:
          parts.append({"fps": [num, den], "group": group, "blocks": None})
        else:
          nblocks = 144
          chunk = 9
          for b in range(0, nblocks, chunk):
            parts.append({"fps": [num, den], "group": group, "blocks": list(range(b, min(nblocks, b + chunk)))})
    return parts

  def patches(self, params):
    p = numeric_shadows(tc)
    if params["group"] == "parse":
      p = [(tc, "int", holes.hole_int), (tc, "float", symrun.sym_float), (tc, "Fraction", symrun.sym_fraction),
           (tc, "re", holes.HoleRe())]
    return p

  def body(self, ex, params):
    fps = Fraction(*params["fps"])
    group = params["group"]
    total = math.ceil(DAY_S * fps)
    df = fps.denominator == 1001
    T = round(600 * fps)
    if params["blocks"] is None:
      n = ex.integer("n", 0, total - 1)
    else:
      q = params["blocks"][ex.choice("block", len(params["blocks"]))]
      r = ex.integer("r", 0, T - 1)
      n = q * T + r
      if not ex.symbolic:
        n = int(n)
    t, exc = call(ex, tc.SmpteTimeCode.from_frames, n, fps)
    if exc:
      ex.fail("C12:no-exception", {"site": exc[1], "exc": type(exc[0]).__name__})
      return
    ex.witness("df-branch" if t.is_drop_frame() else "ndf-branch")
    h, m, s, f = _label(t)
    nz = zint(n)
    if t.is_drop_frame():
      ex.witness("minute-correction", And(m % 10 != 0, s == 0))
    if group == "rt":
      back, exc = call(ex, t.to_frames)
      if exc:
        ex.fail("C12:no-exception", {"site": exc[1], "exc": type(exc[0]).__name__})
        return
      ex.prove(zint(back) == nz, "C12:roundtrip", {"fps": str(fps)})
      nd = math.ceil(fps)
      ex.prove(And(f >= 0, f < nd, s >= 0, s < 60, m >= 0, m < 60, h >= 0, h < 24), "C12:fields-in-range", {"fps": str(fps)})
      if fps in (Fraction(30000, 1001), Fraction(60000, 1001)):
        d = 2 if fps == Fraction(30000, 1001) else 4
        ex.prove(Not(And(s == 0, f < d, m % 10 != 0)), "C12:df-skipped-labels", {"fps": str(fps)})
      off, exc = call(ex, t.to_temporal_offset)
      if exc:
        ex.fail("C12:no-exception", {"site": exc[1], "exc": type(exc[0]).__name__})
        return
      ex.prove(zreal(off) * RV(fps) == z3.ToReal(nz), "C12:offset-exact", {"fps": str(fps)})
    elif group == "succ":
      t2, exc = call(ex, tc.SmpteTimeCode.from_frames, n + 1, fps)
      if exc:
        ex.fail("C12:no-exception", {"site": exc[1], "exc": type(exc[0]).__name__})
        return
      ex.prove(_lex_lt([h, m, s, f], _label(t2)), "C12:labels-increase", {"fps": str(fps)})
    elif group == "add":
      if params["blocks"] is None:
        k = ex.integer("k", 0, math.ceil(7200 * fps))
        mm = n + k
      else:
        span = 1 if ex.tier == "quick" else 12
        dq = ex.choice("dblock", span + 1)
        r2 = ex.integer("r2", 0, T - 1)
        mm = (q + dq) * T + r2
        k = mm - n
        ex.assume(zint(k) >= 0)
        if not ex.symbolic:
          mm, k = int(mm), int(k)
      # add_frames is from_frames(to_frames() + k).  The nested label arithmetic is cut at the inner call: the
      # frame count handed to from_frames is proved equal to n + k, and the call continues with that equal, simpler
      # term (assume/guarantee inside one path; from_frames itself is decided for every count by group "rt").
      real_ff = tc.SmpteTimeCode.from_frames

      def cut_ff(nb, fr, _t=[mm]):
        ex.prove(zint(nb) == zint(_t[0]), "C12:add-frames", {"fps": str(fps)})
        return real_ff(_t[0], fr)

      with symrun.patched((tc.SmpteTimeCode, "from_frames", staticmethod(cut_ff))):
        _, exc = call(ex, t.add_frames, k)
      if exc:
        ex.fail("C12:no-exception", {"site": exc[1], "exc": type(exc[0]).__name__})
        return
      exp, exc = call(ex, real_ff, mm, fps)
      ex.prove(And(*[a == b for a, b in zip(_label(t), _label(exp))]), "C12:add-frames-label", {"fps": str(fps)})
      one, _ = call(ex, real_ff, n, fps)
      n1 = n + 1

      def cut_ff1(nb, fr):
        ex.prove(zint(nb) == zint(n1), "C12:add-one-frame", {"fps": str(fps)})
        return real_ff(n1, fr)

      with symrun.patched((tc.SmpteTimeCode, "from_frames", staticmethod(cut_ff1))):
        _, exc = call(ex, one.add_frames)
      nxt, _ = call(ex, real_ff, n1, fps)
      ex.prove(And(*[a == b for a, b in zip(_label(one), _label(nxt))]), "C12:add-one-frame-label", {"fps": str(fps)})
    elif group == "parse":
      text = str(t)
      base = Fraction(math.ceil(fps))
      # the drop-frame syntax is parsed against the nominal rate as well as the exact one
      for b in ([fps, base] if t.is_drop_frame() else [fps]):
        p, exc = call(ex, tc.SmpteTimeCode.parse, text, b)
        if exc:
          ex.fail("C12:parse-printed", {"site": exc[1], "exc": type(exc[0]).__name__, "fps": str(fps)})
          return
        ex.prove(And(*[a == b2 for a, b2 in zip(_label(p), [h, m, s, f])]), "C12:parse-printed", {"fps": str(fps)})
        ex.prove(p.get_frame_rate() == fps, "C12:parse-printed-rate", {"fps": str(fps), "base": str(b)})


register(SmpteHarness())


class ClockHarness(Harness):
  name = "c12_clock"
  properties = ("C12",)
  functions = ("time_code:ClockTime.from_seconds", "time_code:ClockTime.__str__", "time_code:ClockTime.parse",
               "imsc.attributes:to_time_format")
  assumptions = ("input is a Fraction (exact rational arithmetic; z3 Real)",
                 "CPython decimal rendering of ints (hole tokens)")
  outside = ("float arguments of ClockTime.from_seconds: round(float, 3) is CPython's correctly rounded decimal "
             "conversion (dtoa), which is outside what QF_FP can state; times of 100 h and more")
  required_witnesses = ("round-up", "round-down", "tie", "grid-denominator")
  bounds = {"quick": "every rational x in [0, 100 h), every rational pair x <= y; additionally x = k/d for d in {3,7,15,30,1000,1001} "
                     "and every integer k with x < 100 h", "thorough": "same"}

  GRID = (3, 7, 15, 30, 1000, 1001)

  def partitions(self, tier):
    # "value" also on the grids k/d (k a symbolic integer): lowest-terms numerator/denominator of such a value can be
    # taken by the code under test (gcd case split), which an arbitrary symbolic rational does not allow
    return [{"group": g} for g in ("value", "monotone", "print")] + [{"group": "value", "den": d} for d in self.GRID]

  def patches(self, params):
    p = numeric_shadows(tc)
    if params["group"] == "print":
      p = [(tc, "int", holes.hole_int), (tc, "float", symrun.sym_float), (tc, "Fraction", symrun.sym_fraction),
           (tc, "re", holes.HoleRe())]
    return p

  @staticmethod
  def _ms(c):
    return ((zint(c.get_hours()) * 60 + zint(c.get_minutes())) * 60 + zint(c.get_seconds())) * 1000 + zint(c.get_milliseconds())

  @staticmethod
  def _R(xz):
    x1000 = xz * 1000
    fl = z3.ToInt(x1000)
    fr = x1000 - z3.ToReal(fl)
    h = RV(Fraction(1, 2))
    return z3.If(fr < h, fl, z3.If(fr > h, fl + 1, z3.If(fl % 2 == 0, fl, fl + 1)))

  def body(self, ex, params):
    if params.get("den"):
      d = params["den"]
      k = ex.integer("k", 0, 360000 * d - 1)
      x = symrun.SymGridRational(k, d) if ex.symbolic else Fraction(k, d)
      ex.witness("grid-denominator")
    else:
      x = ex.real("x", 0, 360000)
      ex.assume(zreal(x) < 360000)
    c, exc = call(ex, tc.ClockTime.from_seconds, x)
    if exc:
      ex.fail("C12:no-exception", {"site": exc[1], "exc": type(exc[0]).__name__})
      return
    ms = self._ms(c)
    xz = zreal(x)
    g = params["group"]
    if g == "value":
      # (1) the result is R(x) = 1000x rounded to the nearest integer, ties to even; (2) |R(x) - 1000x| <= 1/2
      ex.prove(ms == self._R(xz), "C12:clock-nearest-ms", {"step": "value is R(x)"})
      rerr = z3.ToReal(self._R(xz)) - xz * 1000
      ex.prove(And(rerr <= RV(Fraction(1, 2)), rerr >= RV(Fraction(-1, 2))), "C12:clock-nearest-ms", {"step": "R within half a ms"})
      err = rerr
      ex.prove(And(zint(c.get_milliseconds()) >= 0, zint(c.get_milliseconds()) <= 999, zint(c.get_seconds()) >= 0,
                   zint(c.get_seconds()) <= 59, zint(c.get_minutes()) >= 0, zint(c.get_minutes()) <= 59,
                   zint(c.get_hours()) >= 0), "C12:clock-fields-in-range")
      ex.witness("round-up", err > 0)
      ex.witness("round-down", err < 0)
      ex.witness("tie", err == RV(Fraction(1, 2)))
    elif g == "monotone":
      # decomposition: (1) the real code's result equals R(x) = 1000x rounded to the nearest integer, ties to even
      # (2) R is monotone.  Together: x <= y implies ms(x) <= ms(y).  The direct query is the same statement but
      # needs ~10 s of nonlinear floor reasoning; the two halves take < 1 s.
      y = ex.real("y", 0, 360000)
      ex.assume(And(zreal(y) < 360000, xz <= zreal(y)))
      c2, exc = call(ex, tc.ClockTime.from_seconds, y)
      ex.prove(ms == self._R(xz), "C12:clock-monotone", {"step": "value is R(x)"})
      ex.prove(self._ms(c2) == self._R(zreal(y)), "C12:clock-monotone", {"step": "value is R(y)"})
      ex.prove(self._R(xz) <= self._R(zreal(y)), "C12:clock-monotone", {"step": "R monotone"})
    else:
      text = str(c)
      p, exc = call(ex, tc.ClockTime.parse, text)
      if exc:
        ex.fail("C12:clock-parse-printed", {"site": exc[1], "exc": type(exc[0]).__name__})
        return
      ex.prove(self._ms(p) == ms, "C12:clock-parse-printed")
      # what the IMSC writer prints for clock_time is this very string
      ctx = imsc_attr.TemporalAttributeWritingContext()
      s2, exc = call(ex, imsc_attr.to_time_format, ctx, x)
      ex.prove(exc is None, "C12:no-exception")


register(ClockHarness())


# ---------------------------------------------------------------------------
# exact-FP obligations


def _fp_lemma(den, lo, hi, kind, timeout_s):
  """for every integer n in [lo,hi]: kind(fl(n / den)) == kind(n / den) where the division is one RNE rounding"""
  n = z3.BitVec("n", 64)
  f = z3.fpDiv(fpmode.RNE, z3.fpSignedToFP(fpmode.RNE, n, fpmode.F64), z3.FPVal(den, fpmode.F64))
  rm = {"floor": z3.RTN(), "ceil": z3.RTP(), "trunc": fpmode.RTZ}[kind]
  got = z3.fpToSBV(rm, f, z3.BitVecSort(64))
  q = n / z3.BitVecVal(den, 64)
  r = z3.SRem(n, z3.BitVecVal(den, 64))
  if kind == "floor":
    want = z3.If(z3.And(r != 0, n < 0), q - 1, q)
  elif kind == "ceil":
    want = z3.If(z3.And(r != 0, n > 0), q + 1, q)
  else:
    want = q
  return fpmode.solve([n >= lo, n <= hi, got != want], timeout_s)


@extra_check("C12")
def c12_fp_lemmas(tier):
  """FP lemmas that justify the integer cuts taken by SymRatio in c12_smpte/c12_clock (read from the live code:
  the denominators are computed from the frame rates exactly as from_frames/to_frames compute them)"""
  t0 = time.time()
  out = {"name": "c12_fp_lemmas", "obligations": 0, "queries": 0, "solver_s": 0.0, "violations": [], "samples": [],
         "validated": 0, "assumptions": ["z3 QF_BVFP semantics of IEEE-754 binary64 equal CPython float semantics"]}
  dens = set()
  for num, den in RATES:
    fps = Fraction(num, den)
    nd = math.ceil(fps)
    dens.update({nd, 60 * nd, 3600 * nd})
    if den == 1001:
      dens.update({round(600 * fps), round(60 * fps), 10})
  hi = math.ceil(DAY_S * 60) + 7200 * 60 + 10 ** 5
  import multiprocessing as mp
  jobs = [(d, -4, hi, "floor", 600) for d in sorted(dens)]
  with mp.get_context("fork").Pool(min(16, len(jobs))) as pool:
    res = pool.starmap(_fp_lemma, jobs)
  for (d, lo, hi_, kind, _), (r, m) in zip(jobs, res):
    out["obligations"] += 1
    out["queries"] += 1
    if r == "sat":
      nv = m.eval(z3.BitVec("n", 64)).as_signed_long()
      ok = math.floor(nv / d) != nv // d
      out["violations"].append({"assertion": "C12:fp-cut-lemma", "model": {"n": nv}, "reproduced": ok,
                                "detail": {"den": d, "kind": kind, "native": math.floor(nv / d), "exact": nv // d}})
    elif r != "unsat":
      out["error"] = "lemma floor(n/%d) undecided: %s" % (d, m)
    else:
      out["validated"] += 1
  out["samples"].append({"lemma": "forall n in [-4,%d]: floor(fl(n/d)) == n div d" % hi, "d": sorted(dens)})
  out["solver_s"] = round(time.time() - t0, 2)
  return out


def _from_seconds_query(num, den, lo, hi, timeout_s):
  """run the real from_seconds on k/fps with from_frames cut out (it is verified by c12_smpte).  First in exact
  rational mode (LIA/LRA); if the code rounds the symbolic value through a float, again in exact-FP mode (QF_BVFP).
  returns (status, k, mode) where sat means from_seconds hands a frame count != k to from_frames"""
  fps = Fraction(num, den)
  seen = []

  def rec(nb, fr):
    seen.append(nb)
    return None

  ex = symrun.Explorer(budget_s=timeout_s)
  ex.strict_floats = True

  def body(e):
    k = e.integer("k", lo, hi)
    del seen[:]
    tc.SmpteTimeCode.from_seconds(symrun.sym_fraction(k, 1) / fps, fps)
    e.prove(zint(seen[0]) == k.z, "boundary")

  try:
    with symrun.patched(*numeric_shadows(tc), (tc.SmpteTimeCode, "from_frames", staticmethod(rec))):
      ex.run(body)
    if ex.violations:
      return "sat", ex.violations[0].model["k"], "exact-rational"
    if ex.exhausted:
      return "unsat", None, "exact-rational"
    return "unknown", ex.inconclusive, "exact-rational"
  except symrun.FloatEncountered:
    pass
  k = z3.BitVec("k", 64)
  secs = fpmode.FPFrac(k * z3.BitVecVal(den, 64), num, hi * den)
  del seen[:]
  with symrun.patched((tc, "int", fpmode.fp_int), (tc, "float", fpmode.fp_float), (tc, "Fraction", fpmode.fp_fraction),
                      (tc.SmpteTimeCode, "from_frames", staticmethod(rec))):
    tc.SmpteTimeCode.from_seconds(secs, fps)
  arg = seen[0]
  if isinstance(arg, fpmode.FPFrac):
    arg = arg.__trunc__()
  if not isinstance(arg, fpmode.FPInt):
    raise symrun.HarnessError("from_seconds did not pass an integer to from_frames")
  r, m = fpmode.solve([k >= lo, k <= hi, arg.z != k], timeout_s)
  if r == "sat":
    return r, m.eval(k).as_signed_long(), "exact-fp"
  return r, m, "exact-fp"


@extra_check("C12")
def c12_from_seconds(tier):
  """a time lying exactly on a frame boundary converts to that frame: from_seconds(k/fps) passes k to from_frames"""
  t0 = time.time()
  out = {"name": "c12_from_seconds", "obligations": 0, "queries": 0, "solver_s": 0.0, "violations": [], "samples": [],
         "validated": 0, "functions": ["time_code:SmpteTimeCode.from_seconds"],
         "assumptions": ["from_frames is cut out of this query and verified for every frame count by c12_smpte",
                         "z3 QF_BVFP semantics of IEEE-754 binary64 equal CPython float semantics"]}
  import multiprocessing as mp
  jobs = []
  for num, den in RATES:
    hi = math.ceil(DAY_S * Fraction(num, den)) - 1
    jobs.append((num, den, 0, hi, 900 if tier == "thorough" else 240))
  with mp.get_context("fork").Pool(len(jobs)) as pool:
    res = pool.starmap(_from_seconds_query, jobs)
  for (num, den, lo, hi, _), (r, m, mode) in zip(jobs, res):
    out["obligations"] += 1
    out["queries"] += 1
    fps = Fraction(num, den)
    if r == "sat":
      got = tc.SmpteTimeCode.from_seconds(Fraction(m) / fps, fps)
      want = tc.SmpteTimeCode.from_frames(m, fps)
      out["violations"].append({"assertion": "C12:frame-boundary", "model": {"k": m, "fps": str(fps)},
                                "reproduced": got != want, "params": {"fps": [num, den]},
                                "detail": {"fps": str(fps), "got": str(got), "want": str(want)}})
    elif r == "unsat":
      out["validated"] += 1
    else:
      out["error"] = "from_seconds(k/%s) undecided: %s" % (fps, m)
    out["samples"].append({"query": "exists k in [0,%d]: int(from_seconds arithmetic on k/%s) != k" % (hi, fps), "result": r,
                           "mode": mode})
  out["solver_s"] = round(time.time() - t0, 2)
  return out
