"""C11 WebVTT reader: exact timestamps, cue-setting geometry, tokenizer / cue-text tree, file structure, round trip."""
from __future__ import annotations

import re
from fractions import Fraction

import z3

import ttconv.model as model
import ttconv.style_properties as styles
import ttconv.vtt.reader as vtt_reader
import ttconv.vtt.tokenizer as vtt_tok
import ttconv.vtt.writer as vtt_writer

from .. import symrun, holes, fpmode
from ..symrun import And, Or, Not, Implies, zreal, zint, RV, call, SymNum
from ..runner import Harness, register, extra_check
from .c10 import Lines

SP = styles.StyleProperties


# ---------------------------------------------------------------------------
# (a) timestamps


class VttTimesHarness(Harness):
  name = "c11_times"
  properties = ("C11", "C18")
  functions = ("vtt.reader:vtt_timestamp_to_secs",)
  assumptions = ("hole-aware regex / int() as in C10; exact-rational mode aborts on any float operation on a symbolic field",)
  outside = ()
  required_witnesses = ("with-hours", "without-hours")
  bounds = {"quick": "hh absent or in [0,9999], mm, ss in [0,99], ms in [0,999], symbolic", "thorough": "same"}
  budget_s = {"quick": 60, "thorough": 300}
  validate_models = 3

  def patches(self, params):
    pats = [(vtt_reader, "_VTT_TS_RE", holes.HolePattern(vtt_reader._VTT_TS_RE)), (vtt_reader, "int", holes.hole_int)]
    if hasattr(vtt_reader, "Fraction"):
      pats.append((vtt_reader, "Fraction", symrun.sym_fraction))
    return pats

  def body(self, ex, params):
    has_h = ex.boolean("has_hours")
    h = ex.integer("h", 0, 9999) if has_h else 0
    m, s, ms = ex.integer("m", 0, 99), ex.integer("s", 0, 99), ex.integer("ms", 0, 999)
    ex.witness("with-hours" if has_h else "without-hours")
    if ex.symbolic:
      ex.strict_floats = True
    text = (format(h, "02d") + ":" if has_h else "") + "%s:%s.%s" % (format(m, "02d"), format(s, "02d"), format(ms, "03d"))
    try:
      got, exc = call(ex, vtt_reader.vtt_timestamp_to_secs, text)
    except symrun.FloatEncountered:
      ex.fail("C11:times-exact", {"reason": "timestamps are computed through binary floating point", "mode": "exact-rational"})
      return
    if exc:
      ex.fail("C18:vtt-reader-raises", {"site": exc[1], "exc": type(exc[0]).__name__})
      return
    if got is None:
      ex.fail("C11:times-exact", {"reason": "well-formed timestamp rejected"})
      return
    ok_type = isinstance(got, (Fraction, int)) or (isinstance(got, SymNum) and got.kind in ("q", "i"))
    ex.prove(ok_type, "C11:times-exact", {"reason": "time is not an exact rational"})
    if ok_type or ex.symbolic:
      ex.prove(zreal(got) * 1000 == z3.ToReal((zint(h) * 3600 + zint(m) * 60 + zint(s)) * 1000 + zint(ms)), "C11:times-exact", {"has_hours": has_h})


register(VttTimesHarness())


@extra_check("C11")
def c11_times_fp(tier):
  import time
  t0 = time.time()
  out = {"name": "c11_times_fp", "obligations": 0, "queries": 0, "solver_s": 0.0, "violations": [], "samples": [], "validated": 0,
         "functions": ["vtt.reader:vtt_timestamp_to_secs"],
         "assumptions": ["z3 QF_BVFP semantics of IEEE-754 binary64 equal CPython float semantics"]}
  names = ["hh", "mm", "ss", "ms"]
  rng = {"hh": 9999, "mm": 99, "ss": 99, "ms": 999}
  bvs = {n: z3.BitVec(n, 64) for n in names}
  fields = {n: fpmode.FPInt(bvs[n], rng[n]) for n in names}

  class M:
    def group(self, n):
      return fields[n]

  class R:
    def fullmatch(self, s):
      return M()
  pats = [(vtt_reader, "_VTT_TS_RE", R()), (vtt_reader, "int", fpmode.fp_int)]
  if hasattr(vtt_reader, "Fraction"):
    pats.append((vtt_reader, "Fraction", fpmode.fp_fraction))
  try:
    with symrun.patched(*pats):
      got = vtt_reader.vtt_timestamp_to_secs("x")
    num = (bvs["hh"] * 3600 + bvs["mm"] * 60 + bvs["ss"]) * 1000 + bvs["ms"]
    eq = fpmode.equals_rational(got, num, 1000, 10 ** 11)
    cons = [z3.And(bvs[n] >= 0, bvs[n] <= rng[n]) for n in names]
    r, m = fpmode.solve(cons + [z3.Not(eq)], 300)
    out["obligations"] = out["queries"] = 1
    if r == "sat":
      v = {n: m.eval(bvs[n], model_completion=True).as_signed_long() for n in names}
      text = "%02d:%02d:%02d.%03d" % (v["hh"], v["mm"], v["ss"], v["ms"])
      native = vtt_reader.vtt_timestamp_to_secs(text)
      exact = Fraction((v["hh"] * 3600 + v["mm"] * 60 + v["ss"]) * 1000 + v["ms"], 1000)
      out["violations"].append({"assertion": "C11:times-exact", "model": v, "reproduced": Fraction(native) != exact,
                                "detail": {"mode": "exact-fp", "_printed": text, "_stored": repr(native)}})
    elif r == "unsat":
      out["validated"] = 1
    else:
      out["error"] = "undecided: %s" % m
    out["samples"].append({"query": "exists fields: vtt_timestamp_to_secs != printed rational", "result": r})
  except symrun.HarnessError as e:
    out["error"] = "harness error: %s" % e
  out["solver_s"] = round(time.time() - t0, 2)
  return out


# ---------------------------------------------------------------------------
# (b) cue settings -> region geometry

LINE_ALIGN = [None, "start", "center", "end"]
POS_ALIGN = [None, "line-left", "center", "line-right"]
TEXT_ALIGN = [None, "left", "right", "start", "center", "end"]
VERTICAL = [None, "lr", "rl"]


class RegionHarness(Harness):
  name = "c11_region"
  properties = ("C11", "C18")
  functions = ("vtt.reader:_get_or_make_region",)
  assumptions = ("parse_vtt_pct / parse_vtt_int are replaced by stubs that return an arbitrary integer of the documented range "
                 "(percentages 0..100, line numbers -23..23) for marker strings; the regex-based parsers themselves are exercised "
                 "with concrete strings in the file-level harness",
                 "float constants (100/23, 200/40 ...) are relaxed to reals")
  outside = ("percentages with decimals (rounded to an integer by the reader before use)", "region blocks (REGION) - skipped by the reader")
  required_witnesses = ("line-number-negative", "line-number-zero", "line-percentage", "vertical", "region-shared")
  bounds = {"quick": "vertical {none,lr,rl} x line {absent, %, number} x 4 line alignments x position {absent,%} x 4 position "
                     "alignments x size {absent,%} x 6 align values; all numbers symbolic integers in their range",
            "thorough": "same"}
  budget_s = {"quick": 280, "thorough": 900}

  def partitions(self, tier):
    return [{"vertical": v, "line": l, "align": a} for v in range(3) for l in range(3) for a in range(len(TEXT_ALIGN))]

  def patches(self, params):
    def pct(value):
      if isinstance(value, str) and value.startswith("@pct"):
        return symrun.cur().syms[value]
      return None

    def integer(value):
      if isinstance(value, str) and value.startswith("@int"):
        return symrun.cur().syms[value]
      return None
    return [(vtt_reader, "parse_vtt_pct", pct), (vtt_reader, "parse_vtt_int", integer)]

  def body(self, ex, params):
    ex.syms = {}
    settings = []
    vert = VERTICAL[params["vertical"]]
    if vert:
      settings.append("vertical:" + vert)
      ex.witness("vertical")
    lk = params["line"]
    la = None
    lz = None
    if lk:
      la = LINE_ALIGN[ex.choice("line_align", 4)]
      if lk == 1:
        lz = ex.integer("line_pct", 0, 100)
        key = "@pct∶line"
        ex.witness("line-percentage")
      else:
        lz = ex.integer("line_num", -23, 23)
        key = "@int∶line"
        ex.witness("line-number-negative", zint(lz) < 0)
        ex.witness("line-number-zero", zint(lz) == 0)
      ex.syms[key] = lz
      if not ex.symbolic:
        key = ("%d%%" % lz) if lk == 1 else str(lz)   # native replay: real text through the real number parsers
      settings.append("line:" + key + ("," + la if la else ""))
    pz = None
    pa = None
    if ex.boolean("has_position"):
      pa = POS_ALIGN[ex.choice("pos_align", 4)]
      pz = ex.integer("position", 0, 100)
      ex.syms["@pct∶position"] = pz
      settings.append("position:" + ("@pct∶position" if ex.symbolic else "%d%%" % pz) + ("," + pa if pa else ""))
    sz = None
    if ex.boolean("has_size"):
      sz = ex.integer("size", 0, 100)
      ex.syms["@pct∶size"] = sz
      settings.append("size:@pct∶size" if ex.symbolic else "size:%d%%" % sz)
    ta = TEXT_ALIGN[params["align"]]
    if ta:
      settings.append("align:" + ta)
    # the reader splits settings at ':' -- markers use a look-alike colon inside values, mapped back by the stubs' keys
    doc = model.ContentDocument()
    r, exc = call(ex, vtt_reader._get_or_make_region, doc, settings)
    full = {"vertical": vert, "line": ["absent", "pct", "number"][lk], "line_align": la, "position": pz is not None, "pos_align": pa, "size": sz is not None, "align": ta}
    det = {"vertical": bool(vert), "line": full["line"], "line_align": la, "position": pz is not None, "size": sz is not None, "_settings": " ".join(settings)}
    if exc:
      ex.fail("C18:vtt-reader-raises", dict(det, site=exc[1], exc=type(exc[0]).__name__))
      return
    if "C11" not in ex.active:
      return
    o, x = r.get_style(SP.Origin), r.get_style(SP.Extent)
    ox, oy, w, h = zreal(o.x.value), zreal(o.y.value), zreal(x.width.value), zreal(x.height.value)
    if lk == 2:
      det["line_sign"] = "negative" if ex.decide(zint(lz) < 0) else ("zero" if ex.decide(zint(lz) == 0) else "positive")
    ex.prove(And(w >= 0, h >= 0), "C11:region-non-negative-extent", det)
    ex.prove(And(ox >= 0, oy >= 0, ox + w <= 100, oy + h <= 100), "C11:region-inside-root", det)
    wm = r.get_style(SP.WritingMode)
    ex.prove(wm is {None: styles.WritingModeType.lrtb, "lr": styles.WritingModeType.tblr, "rl": styles.WritingModeType.tbrl}[vert],
             "C11:writing-mode", det)
    want_ta = {None: styles.TextAlignType.center, "left": styles.TextAlignType.start, "right": styles.TextAlignType.end,
               "start": styles.TextAlignType.start, "center": styles.TextAlignType.center, "end": styles.TextAlignType.end}[ta]
    ex.prove(r.get_style(SP.TextAlign) is want_ta, "C11:text-align", det)
    if pz is not None:
      # the cue box is anchored at the position along the writing direction (WebVTT 6.1 "x/y-position"): its line-left
      # edge, centre or line-right edge sits on the position, whatever the size; the position alignment defaults from
      # the text alignment (left/start: line-left, right/end: line-right, otherwise centre)
      eff_pa = pa if pa in ("line-left", "center", "line-right") else \
        {"left": "line-left", "start": "line-left", "right": "line-right", "end": "line-right"}.get(ta, "center")
      k = {"line-left": RV(0), "center": RV(Fraction(1, 2)), "line-right": RV(1)}[eff_pa]
      if vert:
        ex.prove(oy == zreal(pz) - k * h, "C11:position-anchors-box", dict(det, pos_align=eff_pa))
      else:
        ex.prove(ox == zreal(pz) - k * w, "C11:position-anchors-box", dict(det, pos_align=eff_pa))
    if lk:
      want_da = {None: styles.DisplayAlignType.before, "start": styles.DisplayAlignType.before, "center": styles.DisplayAlignType.center,
                 "end": styles.DisplayAlignType.after}[la]
      ex.prove(r.get_style(SP.DisplayAlign) is want_da, "C11:display-align", det)
    # a second cue that differs only in its line setting: whatever region it gets (shared or new) must carry the display
    # alignment its own settings ask for
    if lk == 1 and params["align"] == 0:
      la2 = LINE_ALIGN[ex.choice("line_align2", 4)]
      lz2 = ex.integer("line_pct2", 0, 100)
      ex.syms["@pct∶line2"] = lz2
      key2 = "@pct∶line2" if ex.symbolic else "%d%%" % lz2
      settings2 = [st for st in settings if not st.startswith("line:")] + ["line:" + key2 + ("," + la2 if la2 else "")]
      rb, exc = call(ex, vtt_reader._get_or_make_region, doc, settings2)
      if not exc:
        want_da2 = {None: styles.DisplayAlignType.before, "start": styles.DisplayAlignType.before, "center": styles.DisplayAlignType.center,
                    "end": styles.DisplayAlignType.after}[la2]
        ex.prove(rb.get_style(SP.DisplayAlign) is want_da2, "C11:display-align", dict(det, second_cue=True, shared=rb is r))
    # equal settings => the same region object
    r2, exc = call(ex, vtt_reader._get_or_make_region, doc, list(settings))
    if not exc:
      ex.witness("region-shared")
      ex.prove(r2 is r, "C11:equal-settings-share-region", det)


register(RegionHarness())


# ---------------------------------------------------------------------------
# (c) tokenizer vs the WebVTT cue text tokenizer (W3C WebVTT 1, section 6.4), (c') cue text tree

WS = "\t\f "


def ref_tokenize(s):
  """reference: WebVTT cue text tokenizer.  '&' is not handled here (inputs of the comparison contain none)."""
  pos = 0
  out = []
  n = len(s)
  while pos < n:
    state = "data"
    result = ""
    buf = ""
    classes = []
    while True:
      c = s[pos] if pos < n else None
      if state == "data":
        if c == "<":
          if result == "":
            state = "tag"
          else:
            out.append(("string", result))
            break
        elif c is None:
          out.append(("string", result))
          break
        else:
          result += c
      elif state == "tag":
        if c is not None and c in WS + "\n":
          state = "annot"
        elif c == ".":
          state = "class"
        elif c == "/":
          state = "end"
        elif c is not None and c.isdigit() and c.isascii():
          result = c
          state = "ts"
        elif c == ">" or c is None:
          if c == ">":
            pos += 1
          out.append(("empty",))
          break
        else:
          result = c
          state = "start"
      elif state == "start":
        if c is not None and c in WS:
          state = "annot"
        elif c == "\n":
          buf = c
          state = "annot"
        elif c == ".":
          state = "class"
        elif c == ">" or c is None:
          if c == ">":
            pos += 1
          out.append(("start", result, [], ""))
          break
        else:
          result += c
      elif state == "class":
        if c is not None and c in WS:
          classes.append(buf)
          buf = ""
          state = "annot"
        elif c == "\n":
          classes.append(buf)
          buf = c
          state = "annot"
        elif c == ".":
          classes.append(buf)
          buf = ""
        elif c == ">" or c is None:
          if c == ">":
            pos += 1
          classes.append(buf)
          out.append(("start", result, classes, ""))
          break
        else:
          buf += c
      elif state == "annot":
        if c == ">" or c is None:
          if c == ">":
            pos += 1
          out.append(("start", result, classes, re.sub(r"[\t\n\f\r ]+", " ", buf.strip("\t\n\f\r "))))
          break
        else:
          buf += c
      elif state == "end":
        if c == ">" or c is None:
          if c == ">":
            pos += 1
          out.append(("end", result))
          break
        result += c
      elif state == "ts":
        if c == ">" or c is None:
          if c == ">":
            pos += 1
          out.append(("ts", result))
          break
        result += c
      pos += 1
  return out


def observed_tokens(s):
  out = []
  for t in vtt_tok.CueTextTokenizer(s):
    if isinstance(t, vtt_tok.StringToken):
      out.append(("string", t.value) if t.value != "" else ("empty",))
    elif isinstance(t, vtt_tok.StartTagToken):
      out.append(("start", t.tag, list(t.classes or []), t.annotation or "") if t.tag != "" else ("empty",))
    elif isinstance(t, vtt_tok.EndTagToken):
      out.append(("end", t.tag))
    elif isinstance(t, vtt_tok.TimestampTagToken):
      out.append(("ts", t.timestamp))
    else:
      out.append(("?", repr(t)))
  return out


ALPHA = ["a", "<", ">", "/", ".", " ", "1", "\n"]
ALPHA_AMP = ["a", "<", ">", "&", ";", "l", "t"]


class TokenizerHarness(Harness):
  name = "c11_tokenizer"
  properties = ("C11", "C18")
  functions = ("vtt.tokenizer:CueTextTokenizer",)
  assumptions = ("strings are selected character by character by solver-decided selector variables from the alphabet (exhaustive "
                 "enumeration of the bounded language; no numeric symbol)",
                 "'<>' (spec: start tag with empty name; ttconv: empty string token) are treated as the same empty token")
  outside = ("strings longer than the bound, characters outside the alphabets; HTML character references other than totality",)
  required_witnesses = ("start-tag", "end-tag", "timestamp-tag", "class", "annotation")
  bounds = {"quick": "every string of length <= 5 over {a < > / . space 1 LF} compared with the W3C tokenizer; every string of length "
                     "<= 5 over {a < > & ; l t} for totality", "thorough": "length <= 6"}
  budget_s = {"quick": 280, "thorough": 1500}
  validate_models = 2

  def partitions(self, tier):
    return [{"alpha": 0, "first": i} for i in range(len(ALPHA))] + [{"alpha": 1, "first": i} for i in range(len(ALPHA_AMP))]

  def body(self, ex, params):
    alpha = ALPHA if params["alpha"] == 0 else ALPHA_AMP
    maxlen = 5 if ex.tier == "quick" else 6
    s = alpha[params["first"]]
    for k in range(1, maxlen):
      c = ex.choice("ch%d" % k, len(alpha) + 1)
      if c == len(alpha):
        break
      s += alpha[c]
    got, exc = call(ex, observed_tokens, s)
    if exc:
      ex.fail("C18:vtt-reader-raises", {"site": exc[1], "exc": type(exc[0]).__name__, "what": "tokenizer"})
      return
    if params["alpha"] == 1 or "C11" not in ex.active:
      return
    want = [t if not (t[0] == "start" and t[1] == "") else ("empty",) for t in ref_tokenize(s)]
    for t in want:
      ex.witness({"start": "start-tag", "end": "end-tag", "ts": "timestamp-tag"}.get(t[0], "x"))
      if t[0] == "start" and t[2]:
        ex.witness("class")
      if t[0] == "start" and t[3]:
        ex.witness("annotation")
    ex.prove(got == want, "C11:tokenizer", {"_input": s, "_got": str(got)[:80], "_want": str(want)[:80],
                                             "kind": "newline-in-tag" if "\n" in s else "other"})


register(TokenizerHarness())

TOKENS_ALL = ["x", " ", "<b>", "</b>", "<i>", "</i>", "<u>", "</u>", "<c.loud.red>", "<c.bg_blue.yellow>", "</c>", "<v Bob>", "</v>", "<lang en>", "</lang>",
              "<ruby>", "</ruby>", "<rt>", "</rt>", "<00:00:01.500>", "y\nz", "&amp;", "&lt;", "<00:00:01>"]
# quick tier: one representative per tag family (u/v/lang end tags and &lt; only in the thorough tier)
TOKENS_QUICK = [t for t in TOKENS_ALL if t not in ("<u>", "</u>", "</v>", "</lang>", "&lt;")]
TOKENS = TOKENS_ALL


def ref_tree(seq, begin):
  """reference cue-text scoper on a token sequence (WebVTT cue text parsing rules, reduced to the tags listed):
  returns ([(char, frozenset(styles))], well_nested)"""
  out = []
  stack = []
  ok = True
  names = {"<b>": "b", "<i>": "i", "<u>": "u", "<c.loud.red>": "c", "<c.bg_blue.yellow>": "c", "<v Bob>": "v", "<lang en>": "lang", "<ruby>": "ruby", "<rt>": "rt"}
  sty = {"<b>": ("b",), "<i>": ("i",), "<u>": ("u",), "<c.loud.red>": ("color", "red"), "<c.bg_blue.yellow>": ("colors", "bg_blue", "yellow"),
         "<v Bob>": None, "<lang en>": ("lang", "en"), "<ruby>": None, "<rt>": ("rt",)}
  ts = None
  for t in seq:
    if t in names:
      if t == "<rt>" and not any(n == "ruby" for n, _ in stack):
        ok = False   # rt outside ruby: ignored by the WebVTT parser; no crisp expectation for the styles that follow
        continue
      stack.append((names[t], sty[t]))
    elif t.startswith("</"):
      nm = t[2:-1]
      if stack and stack[-1][0] == nm:
        stack.pop()
      else:
        ok = False
    elif t == "<00:00:01>":
      pass   # malformed timestamp tag: ignored (a warning), never an error
    elif t.startswith("<0"):
      ts = Fraction(3, 2)
    else:
      text = {"&amp;": "&", "&lt;": "<"}.get(t, t)
      st = frozenset(s for _, s in stack if s is not None) | (frozenset([("begin", ts - begin)]) if ts is not None else frozenset())
      for ch in text:
        out.append((ch, st if ch != "\n" else frozenset()))
  return out, ok


def observed_tree(p):
  out = []

  def rec(e, st, begin):
    st = set(st)
    if isinstance(e, (model.Span, model.Rt)):
      if e.get_style(SP.FontWeight) is styles.FontWeightType.bold:
        st.add(("b",))
      if e.get_style(SP.FontStyle) is styles.FontStyleType.italic:
        st.add(("i",))
      td = e.get_style(SP.TextDecoration)
      if td is not None and td.underline:
        st.add(("u",))
      c = e.get_style(SP.Color)
      bg = e.get_style(SP.BackgroundColor)
      names = {v.value: k for k, v in styles.NamedColors.__members__.items()}
      if c is not None and bg is not None and bg != vtt_reader._DEFAULT_BG_COLOR:
        st.add(("colors", "bg_" + names.get(bg, "?"), names.get(c, "?")))
      elif c is not None:
        st.add(("color", names.get(c, "?")))
      if e.get_lang():
        st.add(("lang", e.get_lang()))
      if isinstance(e, model.Rt):
        st.add(("rt",))
      if e.get_begin() is not None:
        begin = (begin or 0) + e.get_begin()   # offsets accumulate down the chain (relative to the paragraph)
    if begin is not None:
      st = set(x for x in st if x[0] != "begin") | {("begin", begin)}
    if isinstance(e, model.Text):
      for ch in e.get_text():
        out.append((ch, frozenset(st)))
    elif isinstance(e, model.Br):
      out.append(("\n", frozenset()))
    for c in e:
      rec(c, st, begin)
  rec(p, set(), None)
  return out


class CueTreeHarness(Harness):
  name = "c11_cue_tree"
  properties = ("C11", "C18")
  functions = ("vtt.reader:_parse_cue_text", "vtt.reader:_TextCueParser._handle_starttag", "vtt.reader:_TextCueParser._handle_endtag",
               "vtt.reader:_TextCueParser._handle_string", "vtt.reader:_TextCueParser._handle_ts")
  assumptions = ("token sequences are chosen by selector variables from the 23-entry token menu (exhaustive over the bound)",
                 "for sequences that are not well nested (end tag not matching the open element, rt outside ruby) only totality and "
                 "the text are asserted")
  outside = ("nesting deeper than the sequence bound", "class names other than red / bg_blue / yellow")
  required_witnesses = ("nested", "ruby", "timestamp", "entity")
  bounds = {"quick": "all sequences of <= 4 tokens over an 18-entry menu (b i c.class v lang ruby rt, end tags, inline timestamp well- and "
                     "ill-formed, multi-line text, entity)", "thorough": "<= 4 tokens over the full 23-entry menu (adds u, </v>, </lang>, &lt;)"}
  budget_s = {"quick": 280, "thorough": 1500}
  validate_models = 2

  def partitions(self, tier):
    return [{"first": i} for i in range(len(TOKENS_QUICK if tier == "quick" else TOKENS_ALL))]

  def body(self, ex, params):
    n = 4
    menu = TOKENS_QUICK if ex.tier == "quick" else TOKENS_ALL
    seq = [menu[params["first"]]]
    for k in range(1, n):
      c = ex.choice("tok%d" % k, len(menu) + 1)
      if c == len(menu):
        break
      seq.append(menu[c])
    text = "".join(seq)
    doc = model.ContentDocument()
    body_, div_ = model.Body(doc), model.Div(doc)
    doc.set_body(body_)
    body_.push_child(div_)
    p = model.P(doc)
    div_.push_child(p)
    pbegin = Fraction(1) if ("<00:00:01.500>" not in seq or ex.boolean("cue_starts_at_one")) else Fraction(0)
    p.set_begin(pbegin)
    p.set_end(Fraction(5))
    _, exc = call(ex, vtt_reader._parse_cue_text, text, p, 0)
    want, ok = ref_tree(seq, pbegin)
    det = {"well_nested": ok, "rt_outside_ruby": "<rt>" in seq and ("<ruby>" not in seq or seq.index("<rt>") < seq.index("<ruby>")),
           "ruby": "<ruby>" in seq, "timestamps": min(2, seq.count("<00:00:01.500>"))}
    depth = 0
    for tkn in seq:
      if tkn.startswith("</"):
        if det.get("_ts_open"):
          det["end_tag_after_timestamp_in_open_tag"] = True
        depth = max(0, depth - 1)
      elif tkn in ("<00:00:01.500>", "<00:00:01>"):
        if depth > 0:
          det["_ts_open"] = True
      elif tkn.startswith("<"):
        depth += 1
    det.pop("_ts_open", None)
    if exc:
      ex.fail("C18:vtt-reader-raises", {"site": exc[1], "exc": type(exc[0]).__name__, "what": "cue text", "ruby": det["ruby"],
                                         "rt_outside_ruby": det["rt_outside_ruby"], "well_nested": ok})
      return
    if "C11" not in ex.active:
      return
    got = observed_tree(p)
    gt, wt = "".join(c for c, _ in got), "".join(c for c, _ in want)
    if "<ruby>" in seq:
      ex.witness("ruby")
    if "<00:00:01.500>" in seq:
      ex.witness("timestamp")
    if "&amp;" in seq or "&lt;" in seq:
      ex.witness("entity")
    if any(len(s) > 1 for _, s in want):
      ex.witness("nested")
    ex.prove(gt == wt, "C11:cue-text", dict(det, _input=text[:60], _got=gt[:40], _want=wt[:40]))
    if ok and gt == wt and "<ruby>" not in seq:
      bad = [(c, sorted(map(str, a)), sorted(map(str, b))) for (c, a), (_, b) in zip(got, want) if a != b]
      ex.prove(not bad, "C11:tag-scope", dict(det, _input=text[:60], _first=str(bad[:1])[:100]))


register(CueTreeHarness())


# ---------------------------------------------------------------------------
# (d) file level, (e) writer -> reader

FILE_BLOCKS = [
  ["NOTE a comment\n", "more\n"],
  ["STYLE\n", "::cue { color: red }\n"],
  ["REGION\n", "id:fred\n"],
  ["id1\n", "00:00:01.000 --> 00:00:02.000\n", "hello\n"],
  ["00:01.000 --> 00:02.500 align:left\n", "a\n", "b\n"],
  ["100:00:03.000 --> 100:00:04.000 line:10%,start position:50%\n", "<b>x</b>\n"],
  ["00:00:05.000 --> 00:00:06.000\n"],
  ["00:00:07.000 --> 00:00:08.000 line:-1\n", "a &amp; b\n"],
]
FILE_CUES = {3: (Fraction(1), Fraction(2), "hello"), 4: (Fraction(1), Fraction(5, 2), "a\nb"), 5: (Fraction(360003), Fraction(360004), "x"),
             6: None, 7: (Fraction(7), Fraction(8), "a & b")}


class VttFileHarness(Harness):
  name = "c11_file"
  properties = ("C11", "C18")
  functions = ("vtt.reader:to_model", "vtt.reader:parse_vtt_pct", "vtt.reader:parse_vtt_int")
  assumptions = ("files are assembled from the block menu by selector variables (exhaustive over the bound)",)
  outside = ("files of more than 3 blocks",)
  required_witnesses = ("note-skipped", "cue-without-text", "crlf", "empty-file")
  bounds = {"quick": "header + every sequence of <= 3 blocks from an 8-entry menu (NOTE, STYLE, REGION, cues with/without id, hours, "
                     "settings, no text), blank-line runs of 1-2, LF/CRLF, with/without final newline; plus the empty file",
            "thorough": "same"}
  budget_s = {"quick": 200, "thorough": 900}
  validate_models = 2

  def partitions(self, tier):
    return [{"crlf": c, "first": i} for c in (0, 1) for i in range(-1, len(FILE_BLOCKS))]

  def body(self, ex, params):
    eol = "\r\n" if params["crlf"] else "\n"
    if params["crlf"]:
      ex.witness("crlf")
    if params["first"] < 0:
      lines = [] if ex.boolean("truly_empty") else ["WEBVTT" + eol]
      ex.witness("empty-file")
      doc, exc = call(ex, vtt_reader.to_model, Lines(lines))
      if exc and not isinstance(exc[0], ValueError):
        ex.fail("C18:vtt-reader-raises", {"site": exc[1], "exc": type(exc[0]).__name__, "what": "empty file", "lines": len(lines)})
      return
    idx = [params["first"]]
    for k in range(1, 3):
      c = ex.choice("block%d" % k, len(FILE_BLOCKS) + 1)
      if c == len(FILE_BLOCKS):
        break
      idx.append(c)
    lines = ["WEBVTT" + eol, eol]
    for j, i in enumerate(idx):
      lines += [l.replace("\n", eol) for l in FILE_BLOCKS[i]]
      if j + 1 < len(idx):
        lines += [eol] * (1 + ex.choice("gap%d" % j, 2))
    if ex.boolean("final_blank"):
      lines.append(eol)
    if 0 in idx:
      ex.witness("note-skipped")
    if 6 in idx:
      ex.witness("cue-without-text")
    doc, exc = call(ex, vtt_reader.to_model, Lines(lines))
    det = {"crlf": bool(params["crlf"]), "cue_without_text": 6 in idx, "negative_line": 7 in idx}
    if exc:
      if not isinstance(exc[0], ValueError):
        ex.fail("C18:vtt-reader-raises", dict(det, site=exc[1], exc=type(exc[0]).__name__, what="file"))
        if "C11" in ex.active:
          ex.fail("C11:reader-fails", dict(det, site=exc[1], exc=type(exc[0]).__name__))
      return
    if "C11" not in ex.active:
      return
    want = [FILE_CUES[i] for i in idx if i in FILE_CUES and FILE_CUES[i] is not None]
    ps = [e for e in doc.get_body().dfs_iterator() if isinstance(e, model.P)]
    ex.prove(len(ps) == len(want), "C11:one-paragraph-per-cue", dict(det, got=len(ps), want=len(want)))
    if len(ps) != len(want):
      return
    for p, (b, e, text) in zip(ps, want):
      ex.prove(p.get_begin() == b and p.get_end() == e, "C11:cue-times", det)
      got = "".join(c for c, _ in observed_tree(p))
      ex.prove(got == text, "C11:cue-text", dict(det, _got=got[:30], _want=text[:30]))
      r = p.get_region()
      ex.prove(r is not None and doc.get_region(r.get_id()) is r, "C11:cue-has-region", det)
    # cues with equal settings share a region
    same = [p for p, i in zip(ps, [i for i in idx if i in FILE_CUES and FILE_CUES[i] is not None]) if i in (3,)]
    if len(same) > 1:
      ex.prove(all(p.get_region() is same[0].get_region() for p in same), "C11:equal-settings-share-region", det)


register(VttFileHarness())


class VttRoundTripHarness(Harness):
  name = "c11_roundtrip"
  properties = ("C11", "C18")
  functions = ("vtt.writer:from_model", "vtt.reader:to_model")
  assumptions = ("as c10_roundtrip",)
  outside = ("documents other than C06 skeletons 0,1,2,3,5,7",)
  required_witnesses = ("cues-reread",)
  bounds = {"quick": "C06 documents 0,1,2,3,5,7 with symbolic times x VTT configs {default, line+align no ids}", "thorough": "same"}
  budget_s = {"quick": 200, "thorough": 900}
  DOCS = (0, 1, 2, 3, 5, 7)

  def partitions(self, tier):
    return [{"doc": d, "cfg": c} for d in self.DOCS for c in (2, 3)]

  def patches(self, params):
    from .c06 import WritersHarness
    pats = WritersHarness().patches({})
    pats += [(vtt_reader, "_VTT_TS_RE", holes.HolePattern(vtt_reader._VTT_TS_RE)), (vtt_reader, "int", holes.hole_int)]
    if hasattr(vtt_reader, "Fraction"):
      pats.append((vtt_reader, "Fraction", symrun.sym_fraction))
    return pats

  def body(self, ex, params):
    from .c06 import DOCS, CONFIGS, WritersHarness
    from .. import docgen, rcue
    from ttconv.vtt.config import VTTWriterConfiguration
    name, regions, skel = DOCS[params["doc"]]
    wh = WritersHarness()
    info = docgen.build(ex, skel, wh._regions(regions))
    wh._region_geometry(info, regions)
    for v in info.time_syms:
      ex.assume(zreal(v) <= 1000)
    out, exc = call(ex, vtt_writer.from_model, info.doc, VTTWriterConfiguration(**CONFIGS[params["cfg"]][1]))
    if exc:
      return
    try:
      cues, css = rcue.parse_vtt(ex, out)
    except rcue.Ungrammatical:
      return
    lines = [l + "\n" for l in out.split("\n")]
    doc, exc = call(ex, vtt_reader.to_model, Lines(lines))
    if exc:
      ex.fail("C18:vtt-reader-raises", {"site": exc[1], "exc": type(exc[0]).__name__, "roundtrip": True})
      return
    ps = [e for e in doc.get_body().dfs_iterator() if isinstance(e, model.P)]
    want = [c for c in cues if c.lines]
    ex.prove(len(ps) == len(want), "C11:rereads-own-output", {"got": len(ps), "want": len(want), "doc": name})
    for p, c in zip(ps, want):
      ex.witness("cues-reread")
      ex.prove(And(zreal(p.get_begin()) * 1000 == z3.ToReal(c.begin), zreal(p.get_end()) * 1000 == z3.ToReal(c.end)),
               "C11:rereads-own-output", {"what": "times", "doc": name})
      try:
        plain, _ = rcue.scope_tags(c.payload, True)
      except rcue.Ungrammatical:
        continue
      got = "".join(ch for ch, _ in observed_tree(p))
      ex.prove(got == plain, "C11:rereads-own-output", {"what": "text", "doc": name, "_got": got[:30], "_want": plain[:30]})


register(VttRoundTripHarness())
