"""C15 model well-formedness: one inductive step from every reachable forest over a small typed universe.
The pre-state is built through the real API from solver-decided selector variables (parent array, owner document,
region references); one API operation with arbitrary (valid and invalid) arguments follows; the representation
invariant and 'rejected => unchanged' are asserted afterwards."""
from __future__ import annotations

from fractions import Fraction

import ttconv.model as model
import ttconv.style_properties as styles

from ..symrun import call, Infeasible
from ..runner import Harness, register

SP = styles.StyleProperties

UNIVERSES = [
  ("body-div-div-p-span", ["Body", "Div", "Div", "P", "Span"]),
  ("p-span-span-br-text", ["P", "Span", "Span", "Br", "Text"]),
  ("p-ruby-rb-rt-span", ["P", "Ruby", "Rb", "Rt", "Span"]),
  ("ruby-rbc-rtc-rb-rt", ["Ruby", "Rbc", "Rtc", "Rb", "Rt"]),
  ("rtc-rt-rt-rp-rp", ["Rtc", "Rt", "Rt", "Rp", "Rp"]),
  ("ruby-rb-rp-rt-rp", ["Ruby", "Rb", "Rp", "Rt", "Rp"]),
  ("div-p-br-span-text", ["Div", "P", "Br", "Span", "Text"]),
]

ALLOWED = {
  "Body": ("Div",), "Div": ("Div", "P"), "P": ("Span", "Br", "Ruby"), "Span": ("Span", "Br", "Text"),
  "Br": (), "Text": (), "Rb": ("Span",), "Rt": ("Span",), "Rp": ("Span",), "Rbc": ("Rb",),
}
RUBY_PATTERNS = (["Rb", "Rt"], ["Rb", "Rp", "Rt", "Rp"], ["Rbc", "Rtc"], ["Rbc", "Rtc", "Rtc"])

OPS = ["push_child", "push_children", "remove", "remove_child", "remove_children", "set_doc", "set_region",
       "put_region", "remove_region", "set_body", "set_style", "add_animation_step", "put_initial_value", "copy_to"]


def kind(e):
  return type(e).__name__


def rtc_ok(ks):
  """rtc may be filled one child at a time, so every prefix of Rt* | Rp Rt+ Rp is a legal state"""
  import re
  s = "".join({"Rt": "t", "Rp": "p"}.get(k, "x") for k in ks)
  return re.fullmatch(r"t*|pt*|pt+p", s) is not None


def value_valid(prop, v):
  """independent validity predicate for the handful of properties the harness stores"""
  if prop is SP.FontFamily:
    return isinstance(v, tuple) and len(v) > 0 and all(isinstance(i, (str, styles.GenericFontFamilyType)) for i in v)
  if prop is SP.Color:
    return isinstance(v, styles.ColorType)
  if prop is SP.FontSize:
    return isinstance(v, styles.LengthType)
  if prop is SP.Display:
    return isinstance(v, styles.DisplayType)
  return True


class World:
  def __init__(self):
    self.docs = [model.ContentDocument(), model.ContentDocument()]
    self.regions = {}   # (doc index, id) -> Region registered
    for di, ids in ((0, ("r1", "r2")), (1, ("r1",))):
      for rid in ids:
        r = model.Region(rid, self.docs[di])
        self.docs[di].put_region(r)
        self.regions[(di, rid)] = r
    self.elems = []
    self.extra_regions = []   # region objects created by the operation

  def all_elems(self):
    return self.elems


def invariant(w):
  """returns a list of violated clauses (empty = well formed)"""
  bad = []
  n = len(w.elems)
  seen_child_of = {}
  for e in w.elems:
    # child list vs links
    kids = []
    c = e.first_child()
    steps = 0
    prev = None
    while c is not None and steps <= n + 2:
      kids.append(c)
      if c.parent() is not e:
        bad.append("child-parent-link")
      if c.previous_sibling() is not prev:
        bad.append("sibling-link")
      prev = c
      c = c.next_sibling()
      steps += 1
    if steps > n + 2:
      bad.append("sibling-cycle")
      continue
    if (e.last_child() is not (kids[-1] if kids else None)) or (e.has_children() != bool(kids)):
      bad.append("first-last-link")
    if len(e) != len(kids) or list(e) != kids:
      bad.append("length-or-iteration")
    for k in kids:
      if id(k) in seen_child_of and seen_child_of[id(k)] is not e:
        bad.append("two-parents")
      seen_child_of[id(k)] = e
      if k.get_doc() is not e.get_doc():
        bad.append("tree-spans-documents")
    # parent must list the element
    p = e.parent()
    if p is not None and not any(x is e for x in p):
      bad.append("parent-does-not-list-child")
    if p is None and (e.next_sibling() is not None or e.previous_sibling() is not None):
      bad.append("root-with-siblings")
    # acyclic
    a = e
    steps = 0
    while a is not None and steps <= n + 1:
      a = a.parent()
      steps += 1
    if a is not None:
      bad.append("cycle")
    # content model
    ks = [kind(k) for k in kids]
    ke = kind(e)
    if ke == "Ruby":
      if ks and ks not in [list(p_) for p_ in RUBY_PATTERNS]:
        bad.append("content-model-ruby")
    elif ke == "Rtc":
      if not rtc_ok(ks):
        bad.append("content-model-rtc")
    elif ke in ALLOWED:
      if not all(k in ALLOWED[ke] for k in ks):
        bad.append("content-model")
    # region reference
    r = e.get_region()
    if r is not None:
      d = e.get_doc()
      if d is None or d.get_region(r.get_id()) is not r:
        bad.append("region-ref-not-registered")
    # stored values
    for p_ in e.iter_styles():
      if not value_valid(p_, e.get_style(p_)):
        bad.append("invalid-style-value")
    for s in e.iter_animation_steps():
      if not value_valid(s.style_property, s.value):
        bad.append("invalid-animation-value")
  for d in w.docs:
    b = d.get_body()
    if b is not None and (not isinstance(b, model.Body) or b.get_doc() is not d or b.parent() is not None):
      bad.append("body-not-root-of-document")
    for r in d.iter_regions():
      if r.get_doc() is not d:
        bad.append("region-of-other-document")
    for p_, v in d.iter_initial_values():
      if not value_valid(p_, v):
        bad.append("invalid-initial-value")
  return sorted(set(bad))


def fingerprint(w):
  def el(e):
    return (id(e), id(e.parent()) if e.parent() is not None else None, tuple(id(c) for c in e), id(e.get_doc()) if e.get_doc() else None,
            id(e.get_region()) if e.get_region() is not None else None, id(e.first_child()) if e.first_child() else None,
            id(e.last_child()) if e.last_child() else None, id(e.next_sibling()) if e.next_sibling() else None,
            id(e.previous_sibling()) if e.previous_sibling() else None,
            tuple(sorted((p.__name__, repr(e.get_style(p))) for p in e.iter_styles())),
            tuple(repr(s) for s in e.iter_animation_steps()), e.get_begin(), e.get_end(), e.get_id(),
            e.get_text() if isinstance(e, model.Text) else None)
  return (tuple(el(e) for e in w.elems),
          tuple((id(d.get_body()) if d.get_body() else None, tuple((k, id(v)) for k, v in d._regions.items()),
                 tuple(sorted((p.__name__, repr(v)) for p, v in d.iter_initial_values()))) for d in w.docs))


class ModelApiHarness(Harness):
  name = "c15_model_api"
  properties = ("C15",)
  functions = tuple("model:ContentElement." + m for m in ("push_child", "push_children", "remove", "remove_child", "remove_children",
                                                            "set_doc", "set_region", "set_style", "add_animation_step", "copy_to")) + \
              ("model:ContentDocument.put_region", "model:ContentDocument.remove_region", "model:ContentDocument.set_body",
               "model:ContentDocument.put_initial_value", "model:Ruby.push_children", "model:Rtc.push_children", "model:Rtc.push_child",
               "style_properties:StyleProperties.FontFamily.validate")
  assumptions = ("pre-states are exactly the states reachable by building a forest through the real API in index order "
                 "(children of a node appear in index order); one operation follows.  Because every pre-state satisfies the "
                 "invariant (checked) and the operation is arbitrary, this is an inductive step: histories of any length "
                 "over the universe preserve the invariant if no counterexample exists",
                 "this harness has no numeric symbol: selector variables are decided by the solver (exhaustive over the bound)")
  outside = ("universes other than the 7 listed 5-element ones; more than two documents / three regions",
             "sibling orders other than index order in the pre-state")
  required_witnesses = ("accepted", "rejected", "pre-state-with-tree", "pre-state-cross-doc", "pre-state-with-body")
  bounds = {"quick": "7 universes of 5 typed elements (every kind pair the content model relates), 2 documents, 3 registered "
                     "regions, every parent array, element 4 in either document, element 1 with any region reference; "
                     "14 operations x every argument tuple over the universe incl. invalid ones",
            "thorough": "same with elements 3 and 4 in either document or detached"}
  budget_s = {"quick": 280, "thorough": 1500}
  validate_models = 3

  def partitions(self, tier):
    return [{"u": u, "op": op} for u in range(len(UNIVERSES)) for op in OPS]

  def build(self, ex, kinds):
    w = World()
    n = len(kinds)
    doc_of = []
    for i, k in enumerate(kinds):
      nd = 1
      if i == n - 1:
        nd = 3          # document 0, document 1, or no document (detached)
      elif i == n - 2:
        nd = 3 if ex.tier == "thorough" else -2      # quick: document 0 or detached
      if nd == -2:
        di = [0, 2][ex.choice("doc%d" % i, 2)]
      else:
        di = ex.choice("doc%d" % i, nd)
      d = [w.docs[0], w.docs[1], None][di]
      doc_of.append(di)
      cls = getattr(model, k)
      e = cls(d) if k != "Text" else model.Text(d, "x")
      w.elems.append(e)
    # region reference on element 1, and on element 0 (the body in the first universe)
    rc = ex.choice("region1", 3)
    if rc and kinds[1] not in ("Br", "Text") and doc_of[1] == 0:
      r, exc = call(ex, w.elems[1].set_region, w.regions[(0, "r%d" % rc)])
    if kinds[0] not in ("Br", "Text") and doc_of[0] == 0 and ex.boolean("region0"):
      r, exc = call(ex, w.elems[0].set_region, w.regions[(0, "r1")])
    # parent array, attached in index order as soon as chosen; Ruby/Rtc get their group through push_children.
    # Candidate parents are those the documented content model allows (the real API still decides: a rejection
    # discards the path); what the API accepts beyond the content model is found by the operation step.
    parent = []
    groups = {}
    for i in range(n):
      cands = [-1] + [j for j in range(n) if j != i and (
        kinds[i] in ALLOWED.get(kinds[j], ()) or
        (kinds[j] == "Ruby" and kinds[i] in ("Rb", "Rt", "Rp", "Rbc", "Rtc")) or
        (kinds[j] == "Rtc" and kinds[i] in ("Rt", "Rp")))]
      p = cands[ex.choice("parent%d" % i, len(cands))]
      parent.append(p)
      if p < 0:
        continue
      if kinds[p] in ("Ruby", "Rtc"):
        groups.setdefault(p, []).append(i)
        continue
      _, exc = call(ex, w.elems[p].push_child, w.elems[i])
      if exc:
        raise Infeasible()   # not a reachable pre-state this way
    for p, idxs in groups.items():
      _, exc = call(ex, w.elems[p].push_children, [w.elems[i] for i in idxs])
      if exc:
        raise Infeasible()
    if kinds[0] == "Body" and doc_of[0] == 0 and ex.boolean("body_set"):
      _, exc = call(ex, w.docs[0].set_body, w.elems[0])
      if exc:
        raise Infeasible()
      ex.witness("pre-state-with-body")
    if any(p >= 0 for p in parent):
      ex.witness("pre-state-with-tree")
    if any(d == 1 for d in doc_of):
      ex.witness("pre-state-cross-doc")
    return w

  def body(self, ex, params):
    uname, kinds = UNIVERSES[params["u"]]
    op = params["op"]
    w = self.build(ex, kinds)
    pre_bad = invariant(w)
    if pre_bad:
      # reached by API calls only: a genuine multi-call history that breaks the invariant
      ex.fail("C15:invariant", {"op": "build", "clauses": pre_bad, "universe": uname})
      return
    n = len(kinds)
    E = w.elems
    before = fingerprint(w)
    a = E[ex.choice("a", n)]
    args = {}
    if op == "push_child":
      b = E[ex.choice("b", n)]
      args = {"a": kind(a), "b": kind(b), "b_is_root_of_a": b is a.root() and b is not a}
      res, exc = call(ex, a.push_child, b)
    elif op == "push_children":
      ib = ex.choice("b", n)
      b = E[ib]
      c = E[(ib + [1, 2, 0][ex.choice("c", 3)]) % n]   # the next two elements, or the same element twice
      res, exc = call(ex, a.push_children, [b, c])
      args = {"a": kind(a), "b": kind(b), "c": kind(c)}
    elif op == "remove":
      res, exc = call(ex, a.remove)
      args = {"a": kind(a)}
    elif op == "remove_child":
      b = E[ex.choice("b", n)]
      res, exc = call(ex, a.remove_child, b)
      args = {"a": kind(a), "b": kind(b)}
    elif op == "remove_children":
      res, exc = call(ex, a.remove_children)
      args = {"a": kind(a)}
    elif op == "set_doc":
      di = ex.choice("d", 3)
      d = [w.docs[0], w.docs[1], None][di]
      args = {"a": kind(a), "doc": di, "a_has_parent": a.parent() is not None, "a_has_children": a.has_children()}
      res, exc = call(ex, a.set_doc, d)
    elif op == "set_region":
      ri = ex.choice("r", 5)
      unreg = model.Region("r9", w.docs[0])
      r = [None, w.regions[(0, "r1")], w.regions[(0, "r2")], w.regions[(1, "r1")], unreg][ri]
      res, exc = call(ex, a.set_region, r)
      args = {"a": kind(a), "region": ["none", "d0.r1", "d0.r2", "d1.r1", "unregistered"][ri]}
    elif op == "put_region":
      di = ex.choice("d", 2)
      ri = ex.choice("r", 3)
      newr = model.Region("r1", w.docs[di])
      r = [newr, w.regions[(1 - di, "r1")], a][ri]
      w.extra_regions.append(newr)
      res, exc = call(ex, w.docs[di].put_region, r)
      args = {"doc": di, "region": ["new-same-id", "other-docs-region", "non-region"][ri]}
    elif op == "remove_region":
      di = ex.choice("d", 2)
      rid = ["r1", "r2", "nope"][ex.choice("r", 3)]
      res, exc = call(ex, w.docs[di].remove_region, rid)
      args = {"doc": di, "id": rid}
    elif op == "set_body":
      di = ex.choice("d", 2)
      res, exc = call(ex, w.docs[di].set_body, a)
      args = {"doc": di, "a": kind(a)}
    elif op == "set_style":
      vi = ex.choice("v", 8)
      prop, val = [(SP.Color, styles.NamedColors.red.value), (SP.Color, "red"), (SP.FontFamily, ("serif", 5)),
                   (SP.FontFamily, (styles.GenericFontFamilyType.serif, "Arial")), (SP.FontSize, 12),
                   (SP.FontFamily, (styles.GenericFontFamilyType.serif, 42)), (SP.FontFamily, ("Arial", styles.GenericFontFamilyType.default, None)),
                   (SP.FontFamily, (7, "Arial"))][vi]
      preset = ex.boolean("property_already_set")
      if preset:
        # the property already holds a valid value: a rejected call must leave it in place
        _, e0 = call(ex, a.set_style, prop, {SP.Color: styles.NamedColors.blue.value, SP.FontFamily: ("Verdana",),
                                             SP.FontSize: styles.LengthType(2, styles.LengthType.Units.em)}[prop])
        before = fingerprint(w)
      res, exc = call(ex, a.set_style, prop, val)
      args = {"a": kind(a), "value": vi, "already_set": preset}
    elif op == "add_animation_step":
      vi = ex.choice("v", 5)

      def mk():
        prop, val = [(SP.Color, styles.NamedColors.red.value), (SP.FontFamily, (1, 2)), (SP.Color, 7),
                     (SP.FontFamily, (styles.GenericFontFamilyType.monospace, 3)), (SP.FontFamily, ("a", None))][vi]
        return a.add_animation_step(model.DiscreteAnimationStep(prop, Fraction(0), None, val))
      res, exc = call(ex, mk)
      args = {"a": kind(a), "value": vi}
    elif op == "put_initial_value":
      di = ex.choice("d", 2)
      vi = ex.choice("v", 4)
      prop, val = [(SP.Color, styles.NamedColors.red.value), (SP.FontFamily, ("x", None)), (SP.Display, "none"),
                   (SP.FontFamily, (styles.GenericFontFamilyType.default, None))][vi]
      res, exc = call(ex, w.docs[di].put_initial_value, prop, val)
      args = {"doc": di, "value": vi}
    elif op == "copy_to":
      b = E[ex.choice("b", n)]
      _, e0 = call(ex, a.set_style, SP.Color, styles.NamedColors.red.value)
      before = fingerprint(w)
      res, exc = call(ex, a.copy_to, b)
      args = {"a": kind(a), "b": kind(b)}
    else:
      raise AssertionError(op)
    det = {"op": op, "universe": uname, "rejected": exc is not None}
    det.update(args)
    post_bad = invariant(w)
    if "region-ref-not-registered" in post_bad:
      # where is the element holding the stale reference?
      stale = [e for e in E if e.get_region() is not None and (e.get_doc() is None or e.get_doc().get_region(e.get_region().get_id()) is not e.get_region())]
      det["stale_ref_under_body"] = any(e.get_doc() is not None and e.root() is e.get_doc().get_body() for e in stale)
    ex.witness("rejected" if exc else "accepted")
    ex.prove(not post_bad, "C15:invariant", dict(det, clauses=post_bad))
    if exc is not None and op not in ("push_children", "remove_children", "copy_to"):
      ex.prove(fingerprint(w) == before, "C15:rejected-leaves-model-unchanged", dict(det, exc=type(exc[0]).__name__))
    if op == "remove_region" and exc is None:
      # no element may still reference a region that is no longer registered (clause of the invariant); also the region is gone
      ex.prove(not w.docs[di].has_region(rid), "C15:remove-region-removes", det)


register(ModelApiHarness())
