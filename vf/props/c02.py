"""C02 significant times: strictly increasing, start no later than the first visible content, complete
(the snapshot at t equals the snapshot at the greatest significant time <= t), and generate_isd_sequence is
exactly the list of snapshots at those times."""
from __future__ import annotations

import z3

import ttconv.model as model
import ttconv.style_properties as styles
from ttconv.isd import ISD

from .. import docgen, oracles
from ..docgen import T, S
from ..symrun import And, Or, Not, Implies, zreal, call
from ..runner import Harness, register

R1 = [["r1", "b e"]]

SKELETONS = [
  ("p-timed", [], ["body", "", [["div", "", [["p", "b e", [S("A", "b e")]]]]]]),
  ("nested-clip", [], ["body", "e", [["div", "b", [["p", "b e", [S("A", "e")]]]]]]),
  ("region-timed", R1, ["body", "", [["div", "r=r1", [["p", "b e", [S("A", "")]]]]]]),
  ("two-p", [], ["body", "", [["div", "", [["p", "b e", [S("A", "")]], ["p", "b e", [S("B", "")]]]]]]),
  ("color-set-on-offset-p", [], ["body", "", [["div", "", [["p", "b e ac", [S("A", "")]]]]]]),
  ("color-set-on-span-in-offset-p", [], ["body", "", [["div", "", [["p", "b", [S("A", "ac e")]]]]]]),
  ("display-set-on-offset-span", [], ["body", "", [["div", "", [["p", "b e", [S("A", "b a=none")]]]]]]),
  ("color-set-on-region", [["r1", "b e ac"]], ["body", "", [["div", "r=r1", [["p", "", [S("A", "")]]]]]]),
  ("color-set-on-offset-div-clipped", [], ["body", "e", [["div", "b ac", [["p", "", [S("A", "")]]]]]]),
  ("two-sets", [], ["body", "", [["div", "", [["p", "b", [S("A", "ac ac=green")]]]]]]),
  ("no-body-two-regions", [["r1", "b e"], ["r2", "b"]], None),
  ("set-restores-specified", [], ["body", "", [["div", "", [["p", "b", [S("A", "c=blue ac ac=blue")]]]]]]),
  ("two-regions", [["r1", "b"], ["r2", "e"]], ["body", "", [["div", "", [["p", "r=r1 b", [S("A", "")]], ["p", "r=r2 e", [S("B", "")]]]]]]),
  ("set-on-body", [], ["body", "b ac", [["div", "", [["p", "e", [S("A", "")]]]]]]),
  ("unbounded-then-bounded", [], ["body", "", [["div", "", [["p", "b", [S("A", "")]], ["p", "b e", [S("B", "")]]]]]]),
  ("bounded-then-unbounded", [], ["body", "", [["div", "", [["p", "b e", [S("A", "")]], ["p", "b", [S("B", "")]]]]]]),
  ("timed-region-when-active", [["r1", "b e sb=whenActive"]], ["body", "", [["div", "r=r1", [["p", "b e", [S("A", "")]]]]]]),
  ("timed-region-transparent", [["r1", "b e bg=transparent"], ["r2", "e op=0"]],
   ["body", "", [["div", "r=r1", [["p", "b", [S("A", "")]]]], ["div", "r=r2", [["p", "", [S("B", "")]]]]]]),
]


def fingerprint(isd):
  """structural identity of a snapshot: tree, ids, text and every computed style value"""
  def st(e):
    return tuple(sorted((p.__name__, repr(e.get_style(p))) for p in e.iter_styles()))

  def rec(e):
    return (type(e).__name__, e.get_id(), e.get_text() if isinstance(e, model.Text) else None, st(e),
            e.get_lang() if not isinstance(e, (model.Text,)) else None,
            tuple(rec(c) for c in e))
  return tuple(rec(r) for r in isd.iter_regions())


def paints_nothing(region):
  """an empty region that shows no background: absent and present are the same rendering"""
  if region.has_children():
    return False
  bg = region.get_style(styles.StyleProperties.BackgroundColor)
  if bg is None or bg.components[3] == 0:
    return True
  if region.get_style(styles.StyleProperties.Opacity) == 0:
    return True
  if region.get_style(styles.StyleProperties.Visibility) is styles.VisibilityType.hidden:
    return True
  if region.get_style(styles.StyleProperties.ShowBackground) is styles.ShowBackgroundType.whenActive:
    return True
  return False


def rendering(isd):
  """fingerprint modulo empty regions that paint nothing"""
  keep = [r.get_id() for r in isd.iter_regions() if not paints_nothing(r)]
  return tuple(f for f in fingerprint(isd) if f[1] in keep)


def is_empty(isd):
  return all(not r.has_children() for r in isd.iter_regions())


class SigTimesHarness(Harness):
  name = "c02_sig_times"
  quick_only_for = ("C18",)   # the deep tier runs under the harness's own property; the C18 roll-up reuses the quick partitions
  properties = ("C02", "C18")
  functions = ("isd:ISD.significant_times", "isd:ISD.from_model", "isd:ISD.generate_isd_sequence")
  assumptions = ("completeness is stated between two snapshots of the implementation (ISD(t) vs ISD(s)); that each "
                 "snapshot is itself right is C01/C03's subject",)
  outside = ("more than 6 simultaneous symbolic time values per document (sorted()/set fork on every pairwise order)",
             "skeletons other than the listed ones")
  required_witnesses = ("between-sig-times", "before-first", "after-last", "animation-active")
  bounds = {"quick": "%d skeletons with <= 6 symbolic rational times (element/region begin/end, set begin/end on elements "
                     "with and without own offset, nested clipping) and symbolic query time" % len(SKELETONS),
            "thorough": "same skeletons (the family is small by construction; deeper bounds are path-explosive)"}
  budget_s = {"quick": 280, "thorough": 1500}

  def partitions(self, tier):
    out = []
    for i in range(len(SKELETONS)):
      for g in ("complete", "sequence"):
        out.append({"skel": i, "group": g})
    return out

  def body(self, ex, params):
    name, regions, skel = SKELETONS[params["skel"]]
    info = docgen.build(ex, skel, regions)
    info.tags.add(name)
    tags = sorted(info.tags | set(t for n in info.nodes + info.regions for t in n.tags if t.startswith("set-on")))
    sig, exc = call(ex, ISD.significant_times, info.doc)
    if exc:
      ex.fail("C18:significant-times-raises", {"site": exc[1], "exc": type(exc[0]).__name__, "tags": tags})
      return
    times = list(sig)
    if "C02" not in ex.active:
      return
    ex.prove(And(*[zreal(a) < zreal(b) for a, b in zip(times, times[1:])]) if len(times) > 1 else True,
             "C02:strictly-increasing", {"tags": tags})
    if params["group"] == "sequence":
      seq, exc = call(ex, ISD.generate_isd_sequence, info.doc)
      if exc:
        ex.fail("C18:isd-sequence-raises", {"site": exc[1], "exc": type(exc[0]).__name__, "tags": tags})
        return
      ex.prove(len(seq) == len(times) and And(*[zreal(a[0]) == zreal(b) for a, b in zip(seq, times)]),
               "C02:sequence-times", {"tags": tags})
      for (s, isd_s) in seq:
        ref, exc = call(ex, ISD.from_model, info.doc, s)
        if exc:
          ex.fail("C18:snapshot-raises", {"site": exc[1], "exc": type(exc[0]).__name__, "tags": tags})
          return
        ex.prove(rendering(isd_s) == rendering(ref), "C02:sequence-is-snapshots", {"tags": tags})
      return
    t = ex.real("t", 0)
    # locate the greatest significant time <= t (each comparison is decided by the solver)
    idx = -1
    for i, s in enumerate(times):
      if s <= t:
        idx = i
      else:
        break
    isd_t, exc = call(ex, ISD.from_model, info.doc, t)
    if exc:
      ex.fail("C18:snapshot-raises", {"site": exc[1], "exc": type(exc[0]).__name__, "tags": tags})
      return
    # first entry no later than the first visible content (oracle R-ISD)
    iv = oracles.Intervals(info)
    regs = info.regions or [None]
    anyvis = Or(*[oracles.visible(info, iv, l, r, zreal(t)) for l in info.leaves() for r in regs])
    if times:
      ex.prove(Implies(anyvis, zreal(times[0]) <= zreal(t)), "C02:starts-before-first-content", {"tags": tags})
    else:
      ex.prove(Not(anyvis), "C02:starts-before-first-content", {"tags": tags})
    if idx < 0:
      ex.witness("before-first")
      ex.prove(is_empty(isd_t), "C02:empty-before-first", {"tags": tags})
      return
    ex.witness("between-sig-times", And(zreal(times[idx]) < zreal(t)) if idx + 1 < len(times) else False)
    ex.witness("after-last", zreal(times[-1]) < zreal(t))
    isd_s, exc = call(ex, ISD.from_model, info.doc, times[idx])
    if exc:
      ex.fail("C18:snapshot-raises", {"site": exc[1], "exc": type(exc[0]).__name__, "tags": tags})
      return
    fa, fb = rendering(isd_t), rendering(isd_s)
    if "Color" in repr(fa) and ("255, 0, 0" in repr(fa) or "0, 128, 0" in repr(fa)):
      ex.witness("animation-active")
    ex.prove(fa == fb, "C02:complete", {"tags": tags})


register(SigTimesHarness())
