"""C09 EBU STL reader: subtitle times (symbolic TTI time-code bytes), region geometry (symbolic VP / row count),
byte classifiers, text-field decoding (selector-enumerated byte classes) and the ISO 6937 composition table."""
from __future__ import annotations

import math
import struct
import unicodedata
from fractions import Fraction

import z3

import ttconv.model as model
import ttconv.style_properties as styles
import ttconv.stl.datafile as datafile
import ttconv.stl.tf as tf
import ttconv.stl.iso6937 as iso6937
import ttconv.time_code as tc

from .. import symrun
from ..symrun import And, Or, Not, Implies, zreal, zint, RV, call, SymNum, numeric_shadows
from ..runner import Harness, register

SP = styles.StyleProperties
DFCS = [(b"STL23.01", Fraction(24000, 1001)), (b"STL24.01", Fraction(24)), (b"STL25.01", Fraction(25)),
        (b"STL30.01", Fraction(30000, 1001)), (b"STL50.01", Fraction(50))]


def gsi_block(dfc=b"STL25.01", dsc=b"1", cct=b"00", tcp=b"00000000", mnr=b"23"):
  """a GSI block (1024 bytes) built field by field from EBU Tech 3264 table 1"""
  f = [b"850", dfc, dsc, cct, b"0A", b" " * 32, b" " * 32, b" " * 32, b" " * 32, b" " * 32, b" " * 32, b" " * 16, b"200101", b"200101", b"00",
       b"00001", b"00001", b"001", b"40", mnr, b"1", tcp, b"00000000", b"1", b"1", b"GBR", b" " * 32, b" " * 32, b" " * 32]
  blk = b"".join(f) + b" " * 75 + b" " * 576
  assert len(blk) == 1024, len(blk)
  return blk


class FakeStruct:
  """stands in for `struct` inside ttconv.stl.datafile: TTI blocks are passed as tuples of (possibly symbolic) fields"""

  def __init__(self):
    self.real = struct

  def unpack(self, fmt, data):
    if isinstance(data, tuple):
      return data
    return self.real.unpack(fmt, data)

  def __getattr__(self, n):
    return getattr(struct, n)


def label_frames(h, m, s, f, fps):
  """frame count of a time code label at the nominal rate; for 30000/1001 also the SMPTE 12M drop-frame count"""
  nom = math.ceil(fps)
  nd = ((h * 60 + m) * 60 + s) * nom + f
  out = [nd]
  if fps == Fraction(30000, 1001):
    tm = h * 60 + m
    out.append(nd - 2 * (tm - tm / 10))
  return out


class StlTimesHarness(Harness):
  name = "c09_times"
  properties = ("C09", "C18")
  functions = ("stl.datafile:DataFile.process_tti_block", "stl.datafile:DataFile.__init__", "time_code:SmpteTimeCode.to_temporal_offset",
               "time_code:SmpteTimeCode.to_frames")
  assumptions = ("struct.unpack of a TTI block is stubbed: the block is handed over as a tuple whose time-code fields are symbolic "
                 "integers (the binary layout itself is exercised with concrete blocks in c09_text)",
                 "time code fields are valid labels: h<=23, m,s<=59, f below the nominal frame rate",
                 "for 30000/1001 fps the statement does not say whether labels are drop-frame: either count is accepted; for the "
                 "other four rates only the non-drop count at the nominal rate")
  outside = ("time-code bytes that are not valid labels",)
  required_witnesses = ("subtitle-kept", "dropped-before-start", "program-start-from-tcp", "invalid-tcp")
  bounds = {"quick": "5 DFC values x program_start_tc {none, TCP with symbolic TCP, explicit 10:00:00:00}; TCI/TCO h,m,s,f symbolic",
            "thorough": "same"}
  budget_s = {"quick": 200, "thorough": 600}

  def partitions(self, tier):
    return [{"dfc": d, "start": s} for d in range(len(DFCS)) for s in ("none", "tcp", "explicit")]

  def patches(self, params):
    return numeric_shadows(tc)

  def stubs(self, params):
    return [(datafile, "struct", FakeStruct())]

  def body(self, ex, params):
    dfc, fps = DFCS[params["dfc"]]
    nom = math.ceil(fps)
    start = params["start"]
    tcp = b"00000000"
    start_frames = [z3.IntVal(0)]
    if start == "tcp":
      # a concrete but solver-chosen programme start: hours by choice, rest fixed (GSI fields are ASCII digits)
      sel = ex.choice("tcp_h", 4)
      if sel == 3:
        # TCP is not a time code: reported, the programme start falls back to zero
        tcp = b"ab300000"
        ex.witness("invalid-tcp")
      else:
        hh = sel * 10
        tcp = b"%02d300000" % hh
        start_frames = label_frames(*[z3.IntVal(x) for x in (hh, 30, 0, 0)], fps)
        ex.witness("program-start-from-tcp")
    elif start == "explicit":
      start_frames = label_frames(*[z3.IntVal(x) for x in (10, 0, 0, 0)], fps)
    df, exc = call(ex, datafile.DataFile, gsi_block(dfc=dfc, tcp=tcp), False, False,
                   {"none": None, "tcp": "TCP", "explicit": "10:00:00:00"}[start])
    if exc:
      ex.fail("C18:stl-reader-raises", {"site": exc[1], "exc": type(exc[0]).__name__})
      return
    fld = {}
    for side in ("i", "o"):
      fld[side] = (ex.integer("tc%s_h" % side, 0, 23), ex.integer("tc%s_m" % side, 0, 59), ex.integer("tc%s_s" % side, 0, 59),
                   ex.integer("tc%s_f" % side, 0, nom - 1))
    tti = (0, 1, 0xFF, 0, *fld["i"], *fld["o"], 20, 2, 0, b"Hello" + b"\x8f" * 107)
    _, exc = call(ex, df.process_tti_block, tti)
    det = {"dfc": dfc.decode(), "start": start}
    if exc:
      ex.fail("C18:stl-reader-raises", dict(det, site=exc[1], exc=type(exc[0]).__name__))
      return
    if "C09" not in ex.active:
      return
    ps = [e for e in df.get_document().get_body().dfs_iterator() if isinstance(e, model.P)]
    fi = label_frames(*[zint(x) for x in fld["i"]], fps)
    fo = label_frames(*[zint(x) for x in fld["o"]], fps)
    # per counting convention k (same convention for TCI, TCO and programme start)
    def secs(fr, st):
      return (z3.ToReal(fr) - z3.ToReal(st)) / RV(fps)
    convs = list(zip(fi, fo, start_frames if len(start_frames) == len(fi) else start_frames * len(fi)))
    if not ps:
      ex.witness("dropped-before-start")
      # dropped: it starts before the programme start, or TCO < TCI (logged as an error)
      ex.prove(Or(*[Or(secs(a, s) < 0, secs(b, s) < secs(a, s)) for a, b, s in convs]), "C09:subtitle-dropped-only-before-start", det)
      return
    ex.witness("subtitle-kept")
    p = ps[0]
    b, e = p.get_begin(), p.get_end()
    ex.prove(Or(*[And(zreal(b) == secs(a, s), zreal(e) == secs(o, s)) for a, o, s in convs]), "C09:subtitle-times", det)
    ex.prove(Or(*[secs(a, s) >= 0 for a, o, s in convs]), "C09:subtitle-dropped-only-before-start", dict(det, kept=True))


register(StlTimesHarness())


class StlRegionHarness(Harness):
  name = "c09_region"
  properties = ("C09", "C18")
  functions = ("stl.datafile:DataFile.process_tti_block", "stl.datafile:_get_region_from_model", "stl.tf:line_count",
               "stl.tf:has_double_height_char")
  assumptions = ("TTI fields VP (1..max rows), JC are symbolic integers (struct stub); the safe area is 10%..90% vertically and "
                 "5%..95% horizontally (EBU Tech 3264 teletext convention used by the reader); geometry floats relaxed to reals")
  outside = ("VP outside 1..max_row_count", "max_row_count other than 23 (teletext) / 11..99 (open subtitles)")
  required_witnesses = ("top-anchored", "bottom-anchored", "region-reused")
  bounds = {"quick": "teletext and open DSC, max_row_count symbolic in [11,99] for open subtitles, VP symbolic in [1,rows], JC in 0..3, "
                     "1-3 text lines, single/double height", "thorough": "same"}
  budget_s = {"quick": 200, "thorough": 600}

  def partitions(self, tier):
    return [{"dsc": d, "lines": n, "dh": h} for d in ("1", "0") for n in (1, 2, 3) for h in (0, 1)]

  def patches(self, params):
    return numeric_shadows(tc)

  def stubs(self, params):
    return [(datafile, "struct", FakeStruct())]

  def body(self, ex, params):
    teletext = params["dsc"] == "1"
    rows = 23
    mrc = None
    if not teletext:
      rows = ex.integer("max_rows", 11, 99)
      mrc = rows
    df, exc = call(ex, datafile.DataFile, gsi_block(dsc=params["dsc"].encode()), False, False, None, None, mrc)
    if exc:
      ex.fail("C18:stl-reader-raises", {"site": exc[1], "exc": type(exc[0]).__name__})
      return
    vp = ex.integer("vp", 1, 99)
    lh_ = 2 if params["dh"] else 1
    # a valid subtitle fits the rows of the display: its last row VP + lines*height - 1 does not exceed the row count
    ex.assume(zint(vp) + params["lines"] * lh_ - 1 <= zint(rows))
    jc = ex.integer("jc", 0, 3)
    text = (b"\x0d" if params["dh"] else b"") + b"\x8a".join([b"Line"] * params["lines"])
    tf_field = text + b"\x8f" * (112 - len(text))
    tti = (0, 1, 0xFF, 0, 0, 0, 1, 0, 0, 0, 2, 0, vp, jc, 0, tf_field)
    _, exc = call(ex, df.process_tti_block, tti)
    det = {"teletext": teletext, "lines": params["lines"], "double_height": bool(params["dh"])}
    if exc:
      ex.fail("C18:stl-reader-raises", dict(det, site=exc[1], exc=type(exc[0]).__name__))
      return
    if "C09" not in ex.active:
      return
    doc = df.get_document()
    p = [e for e in doc.get_body().dfs_iterator() if isinstance(e, model.P)][0]
    r = p.get_region()
    o, x = r.get_style(SP.Origin), r.get_style(SP.Extent)
    oy, h, ox, w = zreal(o.y.value), zreal(x.height.value), zreal(o.x.value), zreal(x.width.value)
    da = r.get_style(SP.DisplayAlign)
    det["display_align"] = da.value
    ex.witness("top-anchored" if da is styles.DisplayAlignType.before else "bottom-anchored")
    ex.prove(And(h >= 0, w >= 0), "C09:region-non-negative-extent", det)
    eps = RV(0) if ex.symbolic else RV(Fraction(1, 10 ** 9))
    ex.prove(And(oy >= 10 - eps, oy + h <= 90 + eps, ox >= 5, ox + w <= 95), "C09:region-inside-safe-area", det)
    # vertical position: row VP of `rows` rows spread over the safe area (80 % of the height)
    row_h = RV(80) / zreal(rows)
    lh = 2 if params["dh"] else 1
    def close(a, b):
      if ex.symbolic:
        return a == b
      d = z3.simplify(a - b)
      v = Fraction(d.numerator_as_long(), d.denominator_as_long())
      return abs(v) <= Fraction(1, 10 ** 9)   # native floats: rounding of the geometry is not the subject
    if da is styles.DisplayAlignType.before:
      ex.prove(close(oy, 10 + (zreal(vp) - 1) * row_h), "C09:region-anchored-at-vp", det)
    else:
      # bottom anchored: the region ends below the last line, which starts at row VP and takes `lines` rows
      ex.prove(close(oy + h, 10 + (zreal(vp) - 1 + params["lines"] * lh) * row_h), "C09:region-anchored-at-vp", det)
    want_ta = z3.If(zint(jc) == 1, 0, z3.If(zint(jc) == 3, 2, 1))
    got_ta = {styles.TextAlignType.start: 0, styles.TextAlignType.center: 1, styles.TextAlignType.end: 2}[p.get_style(SP.TextAlign)]
    ex.prove(want_ta == got_ta, "C09:justification", det)
    # a third subtitle at another (symbolic) row: whichever region it gets, shared or new, must be anchored at *its* row
    vp3 = ex.integer("vp3", 1, 99)
    ex.assume(zint(vp3) + params["lines"] * lh_ - 1 <= zint(rows))
    tti3 = (0, 3, 0xFF, 0, 0, 0, 5, 0, 0, 0, 6, 0, vp3, jc, 0, tf_field)
    _, exc = call(ex, df.process_tti_block, tti3)
    if not exc:
      p3 = [e for e in doc.get_body().dfs_iterator() if isinstance(e, model.P)][-1]
      r3 = p3.get_region()
      o3, x3 = r3.get_style(SP.Origin), r3.get_style(SP.Extent)
      if r3.get_style(SP.DisplayAlign) is styles.DisplayAlignType.before:
        ex.prove(close(zreal(o3.y.value), 10 + (zreal(vp3) - 1) * row_h), "C09:region-anchored-at-vp", dict(det, third=True, shared=r3 is r))
      else:
        ex.prove(close(zreal(o3.y.value) + zreal(x3.height.value), 10 + (zreal(vp3) - 1 + params["lines"] * lh) * row_h),
                 "C09:region-anchored-at-vp", dict(det, third=True, shared=r3 is r))
    # a second subtitle with the same parameters uses the same region
    tti2 = (0, 2, 0xFF, 0, 0, 0, 3, 0, 0, 0, 4, 0, vp, jc, 0, tf_field)
    _, exc = call(ex, df.process_tti_block, tti2)
    if not exc:
      ps = [e for e in doc.get_body().dfs_iterator() if isinstance(e, model.P)]
      if len(ps) >= 2:
        ex.witness("region-reused")
        ex.prove(ps[-1].get_region() is r, "C09:equal-parameters-share-region", det)


register(StlRegionHarness())

# EBU Tech 3264 text-field code classes (appendix 2): exactly one class per byte value
def ref_byte_class(c):
  I = z3.IntVal
  return z3.If(z3.Or(z3.And(c >= 0x20, c <= 0x7F), z3.And(c >= 0xA0, c <= 0xFF)), I(0),      # character codes
         z3.If(c == 0x8A, I(2),                                                                 # CR/LF
         z3.If(c == 0x8F, I(3),                                                                 # unused space
         z3.If(z3.Or(z3.And(c >= 0x00, c <= 0x07), z3.And(c >= 0x0A, c <= 0x0D), z3.And(c >= 0x1C, c <= 0x1D),
                     z3.And(c >= 0x80, c <= 0x85)), I(1), I(4)))))                              # control codes / reserved


COLORS = {0: "black", 1: "red", 2: "lime", 3: "yellow", 4: "blue", 5: "magenta", 6: "cyan", 7: "white"}
CLASSES = [("char", [0x41]), ("space", [0x20]), ("fg", [0x01, 0x06]), ("bg-new", [0x1D]), ("bg-black", [0x1C]),
           ("italic-on", [0x80]), ("italic-off", [0x81]), ("underline-on", [0x82]), ("underline-off", [0x83]), ("newline", [0x8A]),
           ("unused", [0x8F]), ("diacritic", [0xC2]), ("diacritic-alone", [0xC2])]


reference_dangling = [False]


def ref_text_field(data, teletext):
  """reference (EBU Tech 3264 section on the text field): returns [(char, fg, bg, italic, underline)] for printable characters and
  '\\n' markers, processing stops at the first unused-space code; attribute codes apply to what follows; in teletext the
  attributes return to their defaults at the start of each row"""
  def defaults():
    return ["white", "black" if teletext else "transparent", False, False]
  st = defaults()
  out = []
  i = 0
  pending_nl = False
  while i < len(data):
    c = data[i]
    if c == 0x8F:
      break
    if c == 0x8A:
      pending_nl = True
      if teletext:
        st = defaults()
    elif c in COLORS:
      st[0] = COLORS[c]
    elif c == 0x1C:
      st[1] = "black"
    elif c == 0x1D:
      st[1] = st[0]
    elif c == 0x80:
      st[2] = True
    elif c == 0x81:
      st[2] = False
    elif c == 0x82:
      st[3] = True
    elif c == 0x83:
      st[3] = False
    elif (0x21 <= c <= 0x7F) or (0xA0 <= c <= 0xFF):
      if 0xC1 <= c <= 0xCF and i + 1 < len(data) and (0x41 <= data[i + 1] <= 0x7A):
        ch = unicodedata.normalize("NFC", chr(data[i + 1]) + {0xC2: "́"}[c])
        i += 1
      elif 0xC1 <= c <= 0xCF:
        reference_dangling[0] = True   # a non-spacing diacritic with no letter after it: undefined, only totality is asserted
        ch = "?"
      else:
        ch = chr(c)
      if pending_nl and out:
        out.append("\n")
      pending_nl = False
      out.append((ch, st[0], st[1], st[2], st[3]))
    i += 1
  return out


def observed_text_field(elem):
  out = []
  names = {v.value: k for k, v in styles.NamedColors.__members__.items() if k not in ("fuchsia", "aqua")}
  pending_nl = False
  for e in elem.dfs_iterator():
    if isinstance(e, model.Br):
      pending_nl = True
    elif isinstance(e, model.Text):
      sp = e.parent()
      td = sp.get_style(SP.TextDecoration)
      st = (names.get(sp.get_style(SP.Color)), names.get(sp.get_style(SP.BackgroundColor)),
            sp.get_style(SP.FontStyle) is styles.FontStyleType.italic, bool(td is not None and td.underline))
      for ch in e.get_text():
        if ch == " ":
          continue
        if pending_nl and out:
          out.append("\n")
        pending_nl = False
        out.append((ch,) + st)
  return out


class StlTextHarness(Harness):
  name = "c09_text"
  properties = ("C09", "C18")
  functions = ("stl.tf:to_model", "stl.tf:_is_character_code", "stl.tf:_is_control_code", "stl.tf:_is_newline_code",
               "stl.tf:_is_unused_space_code", "stl.iso6937:decode", "stl.reader:to_model")
  assumptions = ("text-field positions are chosen by class through selector variables (exhaustive over the bound); spaces are not "
                 "compared (how attribute codes and isolated spaces render as spaces is teletext specific); boxing and "
                 "double-height codes are not part of the text comparison",
                 "real 1024+128 byte files are assembled and read through stl.reader.to_model (binary layout not stubbed here)")
  outside = ("text fields longer than the bound", "CCT other than 00 in the text comparison (8859-x tables are CPython's)")
  required_witnesses = ("colour-applied", "newline", "stopped-at-unused-space", "diacritic", "cumulative-set")
  bounds = {"quick": "text fields of <= 4 positions, each one of 13 byte classes (letter, space, 4 foreground colours, new/black "
                     "background, italics on/off, underline on/off, newline, unused space, acute+letter), teletext and open",
            "thorough": "<= 5 positions"}
  budget_s = {"quick": 280, "thorough": 1200}
  validate_models = 2

  def partitions(self, tier):
    return [{"teletext": t, "first": i} for t in (0, 1) for i in range(len(CLASSES))] + [{"classify": True}, {"blocks": True}]

  def patches(self, params):
    return []

  def body(self, ex, params):
    if params.get("classify"):
      c = ex.integer("byte", 0, 255)
      funcs = [tf._is_character_code, tf._is_control_code, tf._is_newline_code, tf._is_unused_space_code]
      hits = [i for i, f in enumerate(funcs) if f(c)]
      want = ref_byte_class(zint(c))
      if len(hits) == 1:
        ex.prove(want == hits[0], "C09:byte-class", {"observed": hits})
      elif len(hits) == 0:
        ex.prove(want == 4, "C09:byte-class", {"observed": hits})
      else:
        ex.fail("C09:byte-class", {"observed": hits, "reason": "more than one class"})
      return
    if params.get("blocks"):
      return self.blocks(ex)
    n = 4 if ex.tier == "quick" else 5
    teletext = bool(params["teletext"])
    data = []
    for k in range(n):
      ci = params["first"] if k == 0 else ex.choice("pos%d" % k, len(CLASSES))
      name, reps = CLASSES[ci]
      b = reps[ex.choice("rep%d" % k, len(reps))] if len(reps) > 1 else reps[0]
      data.append(b)
      if name == "diacritic":
        data.append(0x65)   # e
    field = bytes(data) + b"\x8f" * (112 - len(data))
    tti = struct.pack("<BHBBBBBBBBBBBBB112s", 0, 1, 0xFF, 0, 0, 0, 1, 0, 0, 0, 2, 0, 20, 2, 0, field)
    import io
    doc, exc = call(ex, __import__("ttconv.stl.reader", fromlist=["to_model"]).to_model,
                    io.BytesIO(gsi_block(dsc=b"1" if teletext else b"0") + tti))
    if exc:
      if not isinstance(exc[0], (ValueError, struct.error, UnicodeDecodeError)):
        ex.fail("C18:stl-reader-raises", {"site": exc[1], "exc": type(exc[0]).__name__, "teletext": teletext})
      return
    if "C09" not in ex.active:
      return
    ps = [e for e in doc.get_body().dfs_iterator() if isinstance(e, model.P)]
    reference_dangling[0] = False
    want = ref_text_field(bytes(data), teletext)
    if reference_dangling[0]:
      return
    got = observed_text_field(ps[0]) if ps else []
    if any(x != "\n" and (x[1] != "white") for x in want):
      ex.witness("colour-applied")
    if "\n" in want:
      ex.witness("newline")
    if 0x8F in data[:-1]:
      ex.witness("stopped-at-unused-space")
    if 0xC2 in data:
      ex.witness("diacritic")
    gt, wt = [x if x == "\n" else x[0] for x in got], [x if x == "\n" else x[0] for x in want]
    ex.prove(gt == wt, "C09:text", {"teletext": teletext, "_field": bytes(data).hex(), "_got": "".join(gt), "_want": "".join(wt)})
    if gt == wt:
      bad = [(g, w) for g, w in zip(got, want) if g != w]
      ex.prove(not bad, "C09:text-attributes", {"teletext": teletext, "_field": bytes(data).hex(), "_first": str(bad[:1])[:120]})


def _blocks(self, ex):
  """TTI block sequences: subtitles of 1-2 blocks (extension blocks concatenated), user-data blocks skipped, subtitles before the
  programme start dropped -- the text of a dropped or skipped block must not leak into the next subtitle"""
  import io
  from ttconv.stl.config import STLReaderConfiguration
  stl_reader = __import__("ttconv.stl.reader", fromlist=["to_model"])
  blocks = []
  want = []
  sn = 0
  stray = False
  for k in range(3):
    # 0 end, 1 single, 2 two-block subtitle, 3 user data, 4 single before start (dropped), 5 cumulative set (CS 1,[2],3),
    # 6 stray intermediate/last cumulative block (no defined text: only "does not fail" is asserted)
    kind = ex.choice("blk%d" % k, 7)
    if kind == 0:
      break
    sn += 1
    early = kind == 4 or (kind == 2 and ex.boolean("blk%d_early" % k))
    h = 9 if early else 10
    def tti(ebn, text, sn_=sn, h_=h, cs=0):
      return struct.pack("<BHBBBBBBBBBBBBB112s", 0, sn_, ebn, cs, h_, 0, sn_, 0, h_, 0, sn_ + 1, 0, 20, 2, 0, text + b"\x8f" * (112 - len(text)))
    if kind == 5:
      three = ex.boolean("blk%d_three" % k)
      parts = []
      for j, cs in enumerate([1, 2, 3] if three else [1, 3]):
        blocks.append(tti(0xFF, b"C%d%d" % (sn, j), sn_=sn, cs=cs))
        parts.append("C%d%d" % (sn, j))
        sn += 1
      want.append("".join(parts))
      ex.witness("cumulative-set")
      continue
    if kind == 6:
      blocks.append(tti(0xFF, b"Z%d" % sn, cs=2 + ex.choice("blk%d_cs" % k, 2)))
      stray = True
      continue
    if kind in (1, 4):
      blocks.append(tti(0xFF, b"S%d" % sn))
      if not early:
        want.append("S%d" % sn)
    elif kind == 2:
      blocks.append(tti(0x00, b"X%d" % sn))
      blocks.append(tti(0xFF, b"Y%d" % sn))
      if not early:
        want.append("X%dY%d" % (sn, sn))
    else:
      blocks.append(tti(0xFE, b"USERDATA"))
  doc, exc = call(ex, stl_reader.to_model, io.BytesIO(gsi_block() + b"".join(blocks)), STLReaderConfiguration(program_start_tc="10:00:00:00"))
  if exc:
    if not isinstance(exc[0], (ValueError, struct.error, UnicodeDecodeError)):
      ex.fail("C18:stl-reader-raises", {"site": exc[1], "exc": type(exc[0]).__name__, "what": "blocks"})
    return
  if "C09" not in ex.active:
    return
  got = []
  for p_ in doc.get_body().dfs_iterator():
    if isinstance(p_, model.P):
      got.append("".join(t.get_text() for t in p_.dfs_iterator() if isinstance(t, model.Text)))
  ex.witness("colour-applied"); ex.witness("newline"); ex.witness("stopped-at-unused-space"); ex.witness("diacritic")
  if not stray:
    ex.prove(got == want, "C09:subtitle-blocks", {"_got": got, "_want": want})


StlTextHarness.blocks = _blocks
register(StlTextHarness())


class Iso6937Harness(Harness):
  name = "c09_iso6937"
  properties = ("C09",)
  functions = ("stl.iso6937:decode",)
  assumptions = ("reference = Unicode canonical composition (NFC) of base letter + the combining mark ISO 6937 assigns to the "
                 "non-spacing diacritic byte; pairs for which Unicode has no precomposed character are not asserted",)
  outside = ("single-byte part of the table above 0xA0 (compared for totality only)",)
  required_witnesses = ("composed",)
  bounds = {"quick": "every diacritic byte 0xC1-0xCF x every ASCII letter (selector variables)", "thorough": "same"}
  budget_s = {"quick": 120, "thorough": 300}
  validate_models = 1

  MARKS = {0xC1: "̀", 0xC2: "́", 0xC3: "̂", 0xC4: "̃", 0xC5: "̄", 0xC6: "̆", 0xC7: "̇", 0xC8: "̈",
           0xCA: "̊", 0xCB: "̧", 0xCD: "̋", 0xCE: "̨", 0xCF: "̌"}

  def partitions(self, tier):
    return [{"mark": m} for m in sorted(self.MARKS)]

  def body(self, ex, params):
    letters = [chr(c) for c in range(0x41, 0x5B)] + [chr(c) for c in range(0x61, 0x7B)]
    l = letters[ex.choice("letter", len(letters))]
    m = params["mark"]
    want = unicodedata.normalize("NFC", l + self.MARKS[m])
    res, exc = call(ex, iso6937.decode, bytes([m, ord(l)]), "note")
    if exc:
      if not isinstance(exc[0], (UnicodeDecodeError, ValueError)):
        ex.fail("C09:iso6937", {"mark": hex(m), "letter": l, "exc": type(exc[0]).__name__})
      return
    if (m, l) in ((0xC2, "g"),):
      return   # ISO 6937 assigns acute + g to g-cedilla (U+0123), not to the canonical composition
    if len(want) == 1:
      ex.witness("composed")
      got = res[0]
      # ISO 6937 defines only a subset of the pairs; a pair the table does not know decodes to U+FFFD
      if got != "�":
        ex.prove(got == want, "C09:iso6937", {"mark": hex(m), "letter": l, "_got": got, "_want": want})


register(Iso6937Harness())


# ---------------------------------------------------------------------------
# GSI fields the configuration refers to (MNR, TCP), valid and invalid

class StlGsiHarness(Harness):
  name = "c09_gsi"
  properties = ("C09", "C18")
  functions = ("stl.datafile:DataFile.__init__", "stl.datafile:DataFile.process_tti_block", "stl.reader:to_model")
  assumptions = ("real 1152-byte files; GSI MNR / TCP / DSC and the reader configuration are chosen by selector variables",)
  outside = ("GSI fields other than DSC, MNR, TCP",)
  required_witnesses = ("invalid-mnr", "invalid-tcp", "valid")
  bounds = {"quick": "DSC {open, teletext} x MNR {23, 11, 00, xx, blank} x max_row_count {default, MNR, 15} x program_start_tc {none, TCP} "
                     "x TCP {00000000, not a time code} x VP {1, 5, 11}; one subtitle at 00:01:00:00",
            "thorough": "same"}
  budget_s = {"quick": 120, "thorough": 300}
  validate_models = 2

  def partitions(self, tier):
    return [{"dsc": d} for d in (0, 1)]

  def body(self, ex, params):
    import io
    from ttconv.stl.config import STLReaderConfiguration
    stl_reader = __import__("ttconv.stl.reader", fromlist=["to_model"])
    dsc = [b"0", b"1"][params["dsc"]]
    mnr = [b"23", b"11", b"00", b"xx", b"  "][ex.choice("mnr", 5)]
    mrc = [None, "MNR", 15][ex.choice("max_row_count", 3)]
    use_tcp = ex.boolean("program_start_tcp")
    tcp = [b"00000000", b"ab300000"][ex.choice("tcp", 2)] if use_tcp else b"00000000"
    vp = [1, 5, 11][ex.choice("vp", 3)]
    tti = struct.pack("<BHBBBBBBBBBBBBB112s", 0, 1, 0xFF, 0, 0, 1, 0, 0, 0, 1, 2, 0, vp, 2, 0, b"Hello" + b"\x8f" * 107)
    cfg = STLReaderConfiguration(max_row_count=mrc, program_start_tc="TCP" if use_tcp else None)
    doc, exc = call(ex, stl_reader.to_model, io.BytesIO(gsi_block(dsc=dsc, tcp=tcp, mnr=mnr) + tti), cfg)
    det = {"dsc": dsc.decode(), "mnr": mnr.decode(), "max_row_count": str(mrc), "tcp": tcp.decode() if use_tcp else None, "vp": vp}
    ex.witness("invalid-mnr", mnr in (b"00", b"xx", b"  ") and mrc == "MNR" and dsc == b"0")
    ex.witness("invalid-tcp", use_tcp and tcp == b"ab300000")
    ex.witness("valid", mnr == b"23" and not use_tcp)
    if exc:
      if not isinstance(exc[0], (ValueError, struct.error, UnicodeDecodeError)):
        ex.fail("C18:stl-reader-raises", dict(det, site=exc[1], exc=type(exc[0]).__name__))
      return
    if "C09" not in ex.active:
      return
    ps = [e for e in doc.get_body().dfs_iterator() if isinstance(e, model.P)]
    # an invalid MNR or TCP is reported and replaced by the default; the subtitle itself is unaffected
    ex.prove(len(ps) == 1 and ps[0].get_begin() == 60 and ps[0].get_end() == 62, "C09:subtitle-times", dict(det, n=len(ps)))
    for p_ in ps:
      r = p_.get_region()
      o, x = r.get_style(SP.Origin), r.get_style(SP.Extent)
      ex.prove(0 <= o.y.value and o.y.value + x.height.value <= 100 + 1e-9 and x.height.value > 0, "C09:region-inside-safe-area",
               dict(det, _oy=float(o.y.value), _h=float(x.height.value)))


register(StlGsiHarness())
