"""C01 snapshot content == what TTML time containment / region association / display make presentable.
The same harness carries the C13 shape assertions and the C18 'snapshot never raises' assertion."""
from __future__ import annotations

import z3

import ttconv.model as model
import ttconv.style_properties as styles
from ttconv.isd import ISD

from .. import docgen, oracles
from ..docgen import T, S
from ..symrun import And, Or, Not, zreal, call
from ..runner import Harness, register

R2 = [["r1", "b e"], ["r2", "b e"]]
R1 = [["r1", "b e"]]

# quick-tier skeletons: (name, regions, body skeleton)
SKELETONS = [
  ("flat-default-region", [],
   ["body", "b e", [["div", "b e", [["p", "b e", [S("A", "b e"), ["br", ""], S("B", "b e")]]]]]]),
  ("one-region-refs", R1,
   ["body", "", [["div", "b e r?", [["p", "b e r?", [S("A", "b e r?"), ["br", ""], S("B", "")]]]]]]),
  ("two-regions-div-p", R2,
   ["body", "e", [["div", "b r?", [["p", "e r?", [S("A", ""), ["br", ""]]], ["p", "b r?", [S("B", "")]]]]]]),
  ("two-regions-span", R2,
   ["body", "", [["div", "r?", [["p", "b e", [S("A", "r? b"), S("B", "r? e")]]]], ["div", "b e r?", [["p", "", [S("C", "")]]]]]]),
  ("nested-div", R1,
   ["body", "b", [["div", "e r?", [["div", "b e r?", [["p", "b", [S("A", "e")]]]], ["p", "r?", [S("B", "b e")]]]]]]),
  ("nested-span", R1,
   ["body", "", [["div", "r=r1", [["p", "b e", [["span", "b e", [T("A"), ["span", "b e", [T("B"), ["br", ""]]], T("C")]]]]]]]]),
  ("display-specified", R1,
   ["body", "d?", [["div", "d? r=r1", [["p", "d? b e", [S("A", "d?"), S("B", "")]]]]]]),
  ("display-animated-p", R1,
   ["body", "", [["div", "r=r1", [["p", "b e a", [S("A", ""), ["br", ""]]], ["p", "a d?", [S("B", "")]]]]]]),
  ("display-animated-span-region", [["r1", "b e a"]],
   ["body", "", [["div", "r=r1", [["p", "b", [S("A", "b e a"), S("B", "a=none")]]]]]]),
  ("display-animated-default-region", [],
   ["body", "a", [["div", "b e a", [["p", "", [S("A", "b a")]]]]]]),
  ("region-display", [["r1", "d? b"], ["r2", "e a"]],
   ["body", "", [["div", "", [["p", "r?", [S("A", "")]], ["p", "r?", [S("B", "b e")]]]]]]),
  ("ruby-simple", R1,
   ["body", "", [["div", "r=r1", [["p", "b e", [["ruby", "b e", [["rb", "", [S("A", "")]], ["rt", "", [S("B", "")]]]], S("C", "b")]]]]]]),
  ("ruby-containers", R1,
   ["body", "", [["div", "r=r1", [["p", "e", [["ruby", "b", [["rbc", "", [["rb", "", [S("A", "")]], ["rb", "", [S("B", "")]]]],
                                                           ["rtc", "", [["rt", "", [S("C", "")]], ["rt", "", [S("D", "")]]]]]]]]]]]]),
  ("ruby-rp", [],
   ["body", "", [["div", "", [["p", "", [["ruby", "b e", [["rb", "", [S("A", "")]], ["rp", "", [S("(", "")]], ["rt", "", [S("B", "b e")]],
                                                         ["rp", "", [S(")", "")]]]]]]]]]]),
  ("three-regions", [["r1", "b"], ["r2", "e"], ["r3", ""]],
   ["body", "", [["div", "r?", [["p", "b e", [S("A", "")]]]], ["div", "", [["p", "r?", [S("B", "b e")]], ["p", "", [S("C", "r?")]]]]]]),
  ("optional-timing", R1,
   ["body", "b? e?", [["div", "b? e? r=r1", [["p", "b? e?", [S("A", "b? e?")]]]]]]),
  ("empty-and-br-only", R1,
   ["body", "", [["div", "r=r1", [["p", "b e", [["br", ""]]], ["p", "b e", []], ["p", "", [S("A", "b e"), ["br", ""], ["br", ""]]]]]]]),
  ("no-body", R2, None),
  ("styled-br", [], ["body", "", [["div", "", [["p", "b e", [S("A", ""), ["br", "c=red fs=italic bg=blue"], S("B", "")]]]]]]),
  ("region-show-background-animated", [["r1", "b e bg=red asb=whenActive"]], ["body", "", [["div", "r=r1", [["p", "b e", [S("A", "")]]]]]]),
  ("deep-chain", [["r1", ""]],
   ["body", "b e", [["div", "b e", [["div", "b e r=r1", [["p", "b e", [["span", "b e", [["span", "b e", [T("A")]]]]]]]]]]]]),
  ("region-inherit-vs-own", R2,
   ["body", "", [["div", "r=r1", [["p", "r=r2", [S("A", "")]], ["p", "", [S("B", "r=r2"), S("C", "r=r1"), S("D", "")]]]],
                 ["div", "", [["p", "", [S("E", "")]], ["p", "r=r2", [S("F", "b e")]]]]]]),
]


# skeletons with few time symbols, also snapshotted through the SignificantTimes cache (sorting forks on every pairwise order)
SKELETONS_CACHED = [
  ("cached-unbounded-then-bounded", [], ["body", "", [["div", "", [["p", "b", [S("A", "")]], ["p", "b e", [S("B", "")]]]]]]),
  ("cached-bounded-then-unbounded", [], ["body", "", [["div", "", [["p", "b e", [S("A", "")]], ["p", "b", [S("B", "")]]]]]]),
  ("cached-timed-region", [["r1", "b e"]], ["body", "", [["div", "r=r1", [["p", "b e", [S("A", "")]]]]]]),
  ("cached-two-regions", [["r1", ""], ["r2", "b e"]], ["body", "", [["div", "r=r1", [["p", "e", [S("A", "")]]]], ["div", "r=r2", [["p", "", [S("B", ""), ["br", ""]]]]]]]),
  ("cached-nested-clip", [["r1", ""]], ["body", "e", [["div", "r=r1 b", [["p", "e", [S("A", "b")]]]]]]),
  ("cached-display-animation", [], ["body", "", [["div", "", [["p", "b e a", [S("A", "")]]]]]]),
]


def content_assertions(ex, info, isd, t, prefix="C01"):
  """compare the observed snapshot with R-ISD under the current path condition"""
  obs = oracles.isd_leaves(isd)
  iv = oracles.Intervals(info)
  tz = zreal(t)
  DISP = styles.StyleProperties.Display
  initial_display = info.doc.get_initial_value(DISP) if info.doc.has_initial_value(DISP) else None
  leaves = info.leaves()
  key_of = {}
  for l in leaves:
    key_of[("text", l.text) if l.kind == "text" else ("br", l.eid)] = l
  if info.regions:
    regions = [(r.eid, r) for r in info.regions]
    allowed = set(r.eid for r in info.regions)
  else:
    regions = [(ISD.DEFAULT_REGION_ID, None)]
    allowed = {ISD.DEFAULT_REGION_ID}
  ex.prove(set(obs) <= allowed, prefix + ":regions-exist", {"observed": sorted(obs), "declared": sorted(allowed)})
  obligations = []
  for rid, rnode in regions:
    seen = obs.get(rid, [])
    idxs = []
    for k in seen:
      l = key_of.get(k)
      if l is None:
        ex.fail(prefix + ":content-invented", {"region": rid, "leaf": list(k)})
        continue
      idxs.append(l.idx)
    ex.prove(all(a < b for a, b in zip(idxs, idxs[1:])), prefix + ":document-order",
             {"region": rid, "observed": [list(k) for k in seen]})
    present = set(idxs)
    for l in leaves:
      v = oracles.visible(info, iv, l, rnode, tz, initial_display)
      if l.idx in present:
        obligations.append((v, prefix + ":shown-but-not-presentable", {"kind": l.kind, "tags": sorted(info.tags | l.tags)}))
        ex.witness("leaf-visible")
      else:
        obligations.append((Not(v), prefix + ":presentable-but-missing", {"kind": l.kind, "tags": sorted(info.tags | l.tags)}))
        if z3.is_false(z3.simplify(v)):
          ex.witness("pruned-by-region")
        else:
          ex.witness("hidden-by-time-or-display")
  ex.prove_all(obligations)


class IsdContentHarness(Harness):
  name = "c01_isd_content"
  quick_only_for = ("C18",)   # the deep tier runs under the harness's own property; the C18 roll-up reuses the quick partitions
  properties = ("C01", "C13", "C18")
  functions = ("isd:ISD.from_model", "isd:ISD._process_element", "isd:ISD._make_absolute")
  assumptions = ("documents are built through the real model API; begin/end offsets range over all non-negative "
                 "rationals (negative offsets are not produced by TTML readers)",
                 "text content is a set of distinct non-blank markers (white space handling is C13's harness)")
  outside = ("more than 3 regions", "trees other than the listed skeletons (quick) / above the node budget (thorough)",
             "negative time offsets")
  required_witnesses = ("leaf-visible", "pruned-by-region", "hidden-by-time-or-display")
  bounds = {"quick": "%d document skeletons (0-3 regions, body/div/div/p/span/nested span/br/ruby incl. rbc/rtc/rp, region "
                     "references at every level, specified and animated tts:display on regions and elements), every "
                     "begin/end/step time an arbitrary non-negative rational, query time t an arbitrary non-negative rational"
                     % len(SKELETONS),
            "thorough": "quick skeletons plus every body/div/p/span skeleton of the generated family (see c01.family)"}
  budget_s = {"quick": 240, "thorough": 1500}

  def partitions(self, tier):
    parts = [{"skel": i} for i in range(len(SKELETONS))]
    parts += [{"cskel": i, "cached": True} for i in range(len(SKELETONS_CACHED))]
    if tier == "thorough":
      parts += [{"gen": i} for i in range(len(family()))]
    return parts

  def skeleton(self, params):
    if "cskel" in params:
      return SKELETONS_CACHED[params["cskel"]]
    if "skel" in params:
      return SKELETONS[params["skel"]]
    return family()[params["gen"]]

  def body(self, ex, params):
    name, regions, skel = self.skeleton(params)
    info = docgen.build(ex, skel, regions)
    info.tags.add(name)
    t = ex.real("t", 0)
    if params.get("cached"):
      sig, exc = call(ex, ISD.significant_times, info.doc)
      if exc:
        ex.fail("C18:significant-times-raises", {"site": exc[1], "exc": type(exc[0]).__name__, "tags": sorted(info.tags)})
        return
      info.tags.add("cached")
      isd, exc = call(ex, ISD.from_model, info.doc, t, sig)
    else:
      isd, exc = call(ex, ISD.from_model, info.doc, t)
    if exc:
      ex.outcome("exception")
      ex.fail("C18:snapshot-raises", {"site": exc[1], "exc": type(exc[0]).__name__, "tags": sorted(info.tags)})
      return
    if "C01" in ex.active:
      content_assertions(ex, info, isd, t)
    if "C13" in ex.active:
      from .c13 import shape_assertions
      shape_assertions(ex, info, isd)


_FAMILY = None


def family():
  """thorough tier: generated skeleton family -- every body > div > (div >)? p+ > (span|br|nested span)+ shape with
  up to 2 paragraphs and up to 3 inline children, timed everywhere, region choice at div/p/span, 2 regions"""
  global _FAMILY
  if _FAMILY is not None:
    return _FAMILY
  out = []
  inline_sets = [
    [S("A", "b e")],
    [S("A", "b e r?"), ["br", ""]],
    [S("A", "b"), S("B", "e r?")],
    [["span", "b e", [T("A"), ["span", "e", [T("B")]]]]],
    [S("A", "e"), ["br", ""], S("B", "b r?")],
  ]
  n = 0
  for nest in (False, True):
    for i1, in1 in enumerate(inline_sets):
      # under the extra (timed) div the second paragraph is limited to the two smallest inline sets: one more symbolic
      # time multiplies the orderings, and the larger sets did not finish within the thorough budget
      for i2 in range(-1, 2 if nest else len(inline_sets)):
        import copy
        ps = [["p", "b e r?", copy.deepcopy(in1)]]
        if i2 >= 0:
          in2 = copy.deepcopy(inline_sets[i2])
          # make markers distinct
          def ren(sk):
            if sk[0] == "text":
              sk[2] = sk[2].lower()
            else:
              # the second paragraph keeps its timing flags but takes its region from the p (keeps the path tree finite
              # within the thorough budget: every r? is a three-way selector)
              sk[1] = sk[1].replace(" r?", "").replace("r?", "")
              for c in (sk[2] if len(sk) > 2 else []):
                ren(c)
          for s in in2:
            ren(s)
          ps.append(["p", "e r?", in2])
        div = ["div", "b r?", ps]
        if nest:
          div = ["div", "e", [div]]
        out.append(("gen-%d" % n, [["r1", "b e"], ["r2", ""]], ["body", "e", [div]]))
        n += 1
  _FAMILY = out
  return out


register(IsdContentHarness())
