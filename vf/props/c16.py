"""C16 LCD filter: style/layout simplification that keeps the text timeline."""
from __future__ import annotations

import copy

import z3

import ttconv.model as model
import ttconv.style_properties as styles
from ttconv.isd import ISD
from ttconv.filters.doc.lcd import LCDDocFilter, LCDDocFilterConfig

from .. import docgen, oracles
from ..docgen import T, S
from ..symrun import And, Or, Not, zreal, zint, call, SymNum
from ..runner import Harness, register
from .c14 import doc_fingerprint

SP = styles.StyleProperties
U = styles.LengthType.Units

# (name, regions, body)
DOCS = [
  ("one-region", [["r1", "b e"]], ["body", "", [["div", "r=r1", [["p", "b e", [S("A", "ac")]]]]]]),
  ("two-regions-same-timing", [["r1", ""], ["r2", ""]],
   ["body", "", [["div", "r=r1", [["p", "b e", [S("A", "")]]]], ["div", "r=r2", [["p", "b e", [S("B", "c=blue")]]]]]]),
  ("two-regions-timed", [["r1", "b e"], ["r2", "b e"]],
   ["body", "", [["div", "r=r1", [["p", "", [S("A", "")]]]], ["div", "", [["p", "r=r2", [S("B", "")]]]]]]),
  ("three-steps", [["r1", "abg=red abg=blue abg=green"]],
   ["body", "", [["div", "r=r1", [["p", "b e", [S("A", "ac ac=green ac=blue")]]]]]]),
  ("no-body", [["r1", "abg=red"], ["r2", "b"]], None),
  ("nested-region-refs", [["r1", ""], ["r2", ""], ["r3", "b"]],
   ["body", "", [["div", "r=r2", [["p", "r=r2 b e", [S("A", "")]], ["p", "", [S("B", "")]]]], ["div", "r=r3", [["p", "", [S("C", "r=r3")]]]]]]),
  ("span-region-refs", [["r1", ""], ["r2", "e"]],
   ["body", "", [["div", "", [["p", "", [S("A", "r=r1 b e"), S("B", "r=r2")]]]]]]),
]

LAYOUTS = ["none", "origin-extent-pct", "origin-px-extent-c", "position-pct-extent-pct", "position-edges-no-extent", "origin-only", "extent-rh", "origin-and-position"]
WM = [None, styles.WritingModeType.lrtb, styles.WritingModeType.rltb, styles.WritingModeType.tblr, styles.WritingModeType.tbrl]
DA = [None, styles.DisplayAlignType.before, styles.DisplayAlignType.center, styles.DisplayAlignType.after]


def style_region(ex, region, k, layout, tags):
  name = region.get_id()
  L = styles.LengthType
  if layout in ("origin-extent-pct", "origin-only", "origin-and-position"):
    ox, oy = ex.real(name + "_ox", 0, 100), ex.real(name + "_oy", 0, 100)
    region.set_style(SP.Origin, styles.CoordinateType(x=L(ox, U.pct), y=L(oy, U.pct)))
  if layout == "origin-extent-pct":
    w, h = ex.real(name + "_w", 0, 100), ex.real(name + "_h", 0, 100)
    region.set_style(SP.Extent, styles.ExtentType(height=L(h, U.pct), width=L(w, U.pct)))
  if layout == "origin-px-extent-c":
    ox, oy = ex.real(name + "_ox", 0, 1920), ex.real(name + "_oy", 0, 1080)
    region.set_style(SP.Origin, styles.CoordinateType(x=L(ox, U.px), y=L(oy, U.px)))
    w, h = ex.real(name + "_w", 0, 32), ex.real(name + "_h", 0, 15)
    region.set_style(SP.Extent, styles.ExtentType(height=L(h, U.c), width=L(w, U.c)))
  if layout in ("position-pct-extent-pct", "position-edges-no-extent", "origin-and-position"):
    px, py = ex.real(name + "_px", 0, 100), ex.real(name + "_py", 0, 100)
    he = [styles.PositionType.HEdge.left, styles.PositionType.HEdge.right][ex.choice(name + "_hedge", 2)]
    ve = [styles.PositionType.VEdge.top, styles.PositionType.VEdge.bottom][ex.choice(name + "_vedge", 2)]
    region.set_style(SP.Position, styles.PositionType(h_offset=L(px, U.pct), v_offset=L(py, U.pct), h_edge=he, v_edge=ve))
    tags.add("position")
    if layout == "position-pct-extent-pct":
      w, h = ex.real(name + "_w", 0, 100), ex.real(name + "_h", 0, 100)
      region.set_style(SP.Extent, styles.ExtentType(height=L(h, U.pct), width=L(w, U.pct)))
      tags.add("%-extent")
    else:
      tags.add("no-extent")
  if layout == "extent-rh":
    w, h = ex.real(name + "_w", 0, 100), ex.real(name + "_h", 0, 100)
    region.set_style(SP.Extent, styles.ExtentType(height=L(h, U.rh), width=L(w, U.rw)))
    px, py = ex.real(name + "_px", 0, 100), ex.real(name + "_py", 0, 100)
    region.set_style(SP.Position, styles.PositionType(h_offset=L(px, U.pct), v_offset=L(py, U.pct)))
    tags.add("position-rh-extent")


ALLOWED = {SP.DisplayAlign, SP.Extent, SP.Origin, SP.Color, SP.BackgroundColor, SP.TextAlign}


class LcdHarness(Harness):
  name = "c16_lcd"
  quick_only_for = ("C18",)   # the deep tier runs under the harness's own property; the C18 roll-up reuses the quick partitions
  properties = ("C16", "C18")
  functions = ("filters.doc.lcd:LCDDocFilter.process", "filters.remove_animations:RemoveAnimationFilter.process_element",
               "filters.supported_style_properties:SupportedStylePropertiesFilter.process_element",
               "filters.supported_style_properties:SupportedStylePropertiesFilter.process_initial_values")
  assumptions = ("region geometry numbers are exact rationals; products with the float constants 100/rows etc. are treated "
                 "as real arithmetic (relaxed floats): IEEE rounding of the geometry is not the subject of C16",
                 "timeline documents carry no display/visibility/opacity styling (the property excludes them)")
  outside = ("documents other than the listed skeletons x layout kinds; em units on regions; more than 2 regions with symbolic geometry",)
  required_witnesses = ("regions-merged", "regions-kept-apart", "display-align-before", "display-align-after", "steps-removed")
  bounds = {"quick": "%d documents x 8 region layout kinds (origin/extent/position in %%, px, c, rh; edges) x 5 writing modes x 4 "
                     "displayAlign x config (safe_area symbolic int 0..30, preserve_text_align, color, bg_color), all geometry "
                     "and times symbolic rationals, 0-3 animation steps per element" % len(DOCS),
            "thorough": "the quick families with the second region's layout varied independently (4 kinds) and all 8 configurations for the first document"}
  budget_s = {"quick": 280, "thorough": 1500}

  # quick tier: (doc, layouts, cfgs, #writing modes r1, #displayAlign r1, #writing modes r2)
  QUICK = [
    (0, range(8), (0, 1, 2, 7), 5, 4, 1),
    (1, (0, 1), (0, 1, 4, 7), 3, 2, 2),
    (1, (3,), (0,), 1, 1, 2),
    (2, (0, 1), (0,), 1, 1, 1),
    (3, (0,), (0, 5), 1, 1, 1),
    (4, (0, 3), (0, 1, 4, 7), 2, 2, 1),
    (5, (0, 7), (0, 7), 1, 1, 1),
    (6, (0, 3), (0, 7), 1, 1, 1),
  ]

  def partitions(self, tier):
    out = []
    if tier == "quick":
      for d, lays, cfgs, nwm, nda, nwm2 in self.QUICK:
        for lay in lays:
          for cfg in cfgs:
            out.append({"doc": d, "layout": lay, "cfg": cfg, "nwm": nwm, "nda": nda, "nwm2": nwm2})
      return out
    # thorough: the quick families with the second region's layout varied independently (4 kinds), plus the remaining
    # configurations for the first document.  (The full product of documents x layouts x configurations x writing modes was
    # tried twice and did not finish in 90 and 30 minutes on 16 cores; it is stated as outside the thorough bound.)
    for d, lays, cfgs, nwm, nda, nwm2 in self.QUICK:
      for lay in lays:
        for cfg in cfgs:
          out.append({"doc": d, "layout": lay, "cfg": cfg, "nwm": nwm, "nda": nda, "nwm2": nwm2})
    for lay in range(len(LAYOUTS)):
      for cfg in (3, 4, 5, 6):
        out.append({"doc": 0, "layout": lay, "cfg": cfg, "nwm": 3, "nda": 2, "nwm2": 1})
    return out

  def body(self, ex, params):
    name, regions, skel = DOCS[params["doc"]]
    info = docgen.build(ex, skel, regions)
    tags = {name, LAYOUTS[params["layout"]]}
    doc = info.doc
    for k, rn in enumerate(info.regions):
      lay = LAYOUTS[params["layout"]] if (k == 0 or ex.tier == "quick") else LAYOUTS[ex.choice("layout%d" % k, 4)]
      style_region(ex, rn.elem, k, lay, tags)
      wm = WM[ex.choice("%s_wm" % rn.eid, params["nwm"])] if k == 0 else [None, styles.WritingModeType.tblr][ex.choice("%s_wm" % rn.eid, params["nwm2"])]
      if wm is not None:
        rn.elem.set_style(SP.WritingMode, wm)
      da = [None, styles.DisplayAlignType.after, styles.DisplayAlignType.before, styles.DisplayAlignType.center][ex.choice("%s_da" % rn.eid, params["nda"])] if k == 0 else None
      if da is not None:
        rn.elem.set_style(SP.DisplayAlign, da)
      rn.elem.set_style(SP.Padding, styles.PaddingType())
    cfgi = params["cfg"]
    sa = ex.integer("safe_area", 0, 30)
    color = styles.NamedColors.yellow.value if cfgi & 1 else None
    bg = styles.NamedColors.navy.value if cfgi & 4 else None
    preserve = bool(cfgi & 2)
    own_color = {}
    if doc.get_body() is not None:
      for e_ in doc.get_body().dfs_iterator():
        if isinstance(e_, model.Span) and e_.get_style(SP.Color) is not None:
          for c_ in e_:
            if isinstance(c_, model.Text):
              own_color[c_.get_text()] = e_.get_style(SP.Color)
    if doc.get_body() is not None:
      for p in doc.get_body().dfs_iterator():
        if isinstance(p, model.P):
          p.set_style(SP.TextAlign, styles.TextAlignType.end)
          p.set_style(SP.FontWeight, styles.FontWeightType.bold)
    cfg = LCDDocFilterConfig(safe_area=sa, preserve_text_align=preserve, color=color, bg_color=bg)
    had_steps = any(True for n in info.nodes + info.regions if n.elem is not None and list(n.elem.iter_animation_steps()))
    stags = sorted(tags)
    had_ref = [n for n in info.nodes if n.elem is not None and n.kind not in ("text", "br") and n.elem.get_region() is not None]
    flt = LCDDocFilter(cfg)
    _, exc = call(ex, flt.process, doc)
    if exc:
      ex.fail("C18:lcd-filter-raises", {"site": exc[1], "exc": type(exc[0]).__name__, "tags": stags})
      ex.fail("C16:filter-succeeds", {"site": exc[1], "exc": type(exc[0]).__name__, "tags": stags})
      return
    if "C16" not in ex.active:
      return
    elems = list(doc.get_body().dfs_iterator()) if doc.get_body() is not None else []
    regs = list(doc.iter_regions())
    # (1) no animation steps
    left = sum(len(list(e.iter_animation_steps())) for e in elems + regs)
    ex.prove(left == 0, "C16:no-animation-steps", {"left": left, "tags": stags})
    if had_steps:
      ex.witness("steps-removed")
    # (2) style whitelist
    extra = sorted(set(p.__name__ for e in elems + regs for p in e.iter_styles() if p not in ALLOWED))
    ex.prove(not extra, "C16:style-whitelist", {"extra": extra, "tags": stags})
    if color is not None:
      others = [e for e in elems if e.has_style(SP.Color) and e is not doc.get_body()]
      ex.prove(not others, "C16:style-whitelist", {"extra": ["Color on descendants although color is configured"], "tags": stags})
    # (3) region == safe area
    for r in regs:
      o, x = r.get_style(SP.Origin), r.get_style(SP.Extent)
      ok = o is not None and x is not None and o.x.units is U.pct and o.y.units is U.pct and x.width.units is U.pct and x.height.units is U.pct
      ex.prove(ok, "C16:region-is-safe-area", {"tags": stags})
      if ok:
        ex.prove(And(zreal(o.x.value) == zreal(sa), zreal(o.y.value) == zreal(sa), zreal(x.width.value) == 100 - 2 * zreal(sa),
                     zreal(x.height.value) == 100 - 2 * zreal(sa)), "C16:region-is-safe-area", {"tags": stags})
    # (4) no two surviving regions alike
    def wm_of(r):
      return r.get_style(SP.WritingMode) or styles.WritingModeType.lrtb
    for i in range(len(regs)):
      for j in range(i + 1, len(regs)):
        a, b = regs[i], regs[j]
        if wm_of(a) is wm_of(b) and a.get_style(SP.DisplayAlign) is b.get_style(SP.DisplayAlign):
          ba, bb = a.get_begin(), b.get_begin()
          ea, eb = a.get_end(), b.get_end()
          same_b = zreal(ba if ba is not None else 0) == zreal(bb if bb is not None else 0)
          if (ea is None) != (eb is None):
            same_e = False
          elif ea is None:
            same_e = True
          else:
            same_e = zreal(ea) == zreal(eb)
          ex.prove(Not(And(same_b, same_e)), "C16:equal-regions-merged", {"tags": stags})
          ex.witness("regions-kept-apart")
    if len(regs) < len(info.regions):
      ex.witness("regions-merged")
    for r in regs:
      ex.witness("display-align-before" if r.get_style(SP.DisplayAlign) is styles.DisplayAlignType.before else "display-align-after")
    # (5) references redirected to registered regions
    for e in elems:
      r = e.get_region()
      ex.prove(r is None or doc.get_region(r.get_id()) is r, "C16:references-redirected", {"tags": stags})
    for n in had_ref:
      # an element that referenced a region keeps referencing one (the retained region its own was merged into)
      ex.prove(n.elem.get_region() is not None, "C16:references-redirected", {"lost": True, "tags": stags})
    # (6) timeline: the text visible at t is what R-ISD says for the source document
    t = ex.real("t", 0)
    isd, exc = call(ex, ISD.from_model, doc, t)
    if exc:
      ex.fail("C18:snapshot-raises", {"site": exc[1], "exc": type(exc[0]).__name__, "tags": stags + ["after-lcd"]})
      return
    obs = set()
    for reg in isd.iter_regions():
      for e in reg.dfs_iterator():
        if isinstance(e, model.Text):
          obs.add(e.get_text())
    iv = oracles.Intervals(info)
    obligations = []
    for l in info.leaves():
      if l.kind != "text":
        continue
      v = Or(*[oracles.visible(info, iv, l, r, zreal(t)) for r in (info.regions or [None])])
      obligations.append((v if l.text in obs else Not(v), "C16:timeline-preserved", {"shown": l.text in obs, "tags": stags}))
    ex.prove_all(obligations)
    # (7) computed colour / background / alignment
    for reg in isd.iter_regions():
      for e in reg.dfs_iterator():
        if isinstance(e, model.Span) and color is not None:
          ex.prove(e.get_style(SP.Color) == color, "C16:configured-color", {"tags": stags})
        if isinstance(e, model.Span) and color is None:
          # no colour configured: the text keeps the colour the source gave it
          for c_ in e:
            if isinstance(c_, model.Text) and c_.get_text() in own_color:
              ex.prove(e.get_style(SP.Color) == own_color[c_.get_text()], "C16:source-color-kept", {"bg_configured": bg is not None, "tags": stags})
        if isinstance(e, model.P):
          if bg is not None:
            ex.prove(e.get_style(SP.BackgroundColor) == bg, "C16:configured-bg-color", {"tags": stags})
          want = styles.TextAlignType.end if preserve else styles.TextAlignType.center
          ex.prove(e.get_style(SP.TextAlign) is want, "C16:text-align", {"preserve": preserve, "tags": stags})
    # (9) idempotent, also when the same filter object is used again (it must not carry state from one call to the next)
    fp1 = doc_fingerprint(doc)
    _, exc = call(ex, (flt if (cfgi != 0 or ex.boolean("reuse_filter_object")) else LCDDocFilter(cfg)).process, doc)
    if exc:
      ex.fail("C16:filter-succeeds", {"site": exc[1], "exc": type(exc[0]).__name__, "tags": stags + ["second-pass"]})
      return
    fp2 = doc_fingerprint(doc)
    ex.prove(fp1 == fp2, "C16:idempotent", {"tags": stags})


register(LcdHarness())
