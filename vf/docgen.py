"""Builds canonical-model documents through the real ttconv.model API from JSON-able skeletons whose
times, region references and display styling are symbolic (Explorer) or concrete (Concrete replay).

skeleton := [kind, flags, children]   kind in body div p span br ruby rb rt rp rbc rtc text
            ["text", "", "literal text"]
flags    := space separated tokens
   b / e        symbolic begin / end (always present)        b? / e?   presence decided by a choice
   r?           region reference by choice (none or any region)   r=ID   fixed reference
   d?           specified tts:display by choice (absent, none, auto)   d=none / d=auto
   a            one tts:display animation step (symbolic begin/end, value by choice); may be repeated
   a=none       animation step with fixed value
   sp / sd      xml:space preserve / default
regions  := [[id, flags], ...]   (same timing / display flags)
"""
from __future__ import annotations

from fractions import Fraction

import ttconv.model as model
import ttconv.style_properties as styles

from .symrun import zreal

KINDS = {
  "body": model.Body, "div": model.Div, "p": model.P, "span": model.Span, "br": model.Br, "ruby": model.Ruby,
  "rb": model.Rb, "rt": model.Rt, "rp": model.Rp, "rbc": model.Rbc, "rtc": model.Rtc, "text": model.Text,
}

DISPLAY = [styles.DisplayType.none, styles.DisplayType.auto]


def _color(v):
  return styles.NamedColors[v].value


STYLE_FLAGS = {
  "bg": (styles.StyleProperties.BackgroundColor, _color),
  "op": (styles.StyleProperties.Opacity, float),
  "sb": (styles.StyleProperties.ShowBackground, lambda v: styles.ShowBackgroundType[v]),
  "vis": (styles.StyleProperties.Visibility, lambda v: styles.VisibilityType[v]),
  "fw": (styles.StyleProperties.FontWeight, lambda v: styles.FontWeightType[v]),
  "fs": (styles.StyleProperties.FontStyle, lambda v: styles.FontStyleType[v]),
  "td": (styles.StyleProperties.TextDecoration, lambda v: styles.TextDecorationType(underline=(v == "underline"), line_through=(True if v == "linethrough" else None))),
  "ta": (styles.StyleProperties.TextAlign, lambda v: styles.TextAlignType[v]),
  "dir": (styles.StyleProperties.Direction, lambda v: styles.DirectionType[v]),
  "da": (styles.StyleProperties.DisplayAlign, lambda v: styles.DisplayAlignType[v]),
}
ANIM_FLAGS = {
  "abg": (styles.StyleProperties.BackgroundColor, _color),
  "aop": (styles.StyleProperties.Opacity, float),
  "asb": (styles.StyleProperties.ShowBackground, lambda v: styles.ShowBackgroundType[v]),
  "avis": (styles.StyleProperties.Visibility, lambda v: styles.VisibilityType[v]),
}


class ENode:
  """what the harness knows about an element it built (oracle input; shares nothing with ttconv.isd)"""

  def __init__(self, idx, kind, parent):
    self.idx = idx
    self.kind = kind
    self.parent = parent
    self.children = []
    self.eid = None
    self.begin = None       # offset (number) or None
    self.end = None
    self.region = None      # region id or None
    self.display = None     # specified DisplayType or None
    self.steps = []         # [(begin|None, end|None, DisplayType)] display animation, document order
    self.color_steps = []   # [(begin, end, ColorType)]
    self.other_steps = []   # [(prop, begin, end, value)]
    self.styles = {}        # specified styles set through STYLE_FLAGS
    self.color = None
    self.text = None
    self.space = "default"
    self.elem = None        # the model element
    self.tags = set()

  def chain(self):
    out = []
    n = self.parent
    while n is not None:
      out.append(n)
      n = n.parent
    return list(reversed(out))


class DocInfo:
  def __init__(self):
    self.doc = None
    self.regions = []   # ENode for regions, document order
    self.nodes = []     # ENode in document (DFS) order
    self.root = None
    self.time_syms = []  # all symbolic time values (numbers)
    self.tags = set()

  def leaves(self):
    return [n for n in self.nodes if n.kind in ("text", "br")]

  def by_eid(self, eid):
    for n in self.nodes:
      if n.eid == eid:
        return n
    return None


def _flags(s):
  return s.split() if s else []


def _timing(ex, name, flags, node, info, settable=True):
  for f in flags:
    if f in ("b", "b?", "e", "e?"):
      which = f[0]
      if f.endswith("?") and not ex.boolean("%s_has_%s" % (name, which)):
        continue
      v = ex.real("%s_%s" % (name, which), 0)
      info.time_syms.append(v)
      if which == "b":
        node.begin = v
        node.elem.set_begin(v)
      else:
        node.end = v
        node.elem.set_end(v)
      node.tags.add("timed")


def _display(ex, name, flags, node, info):
  nstep = 0
  for f in flags:
    if f == "d?":
      c = ex.choice("%s_disp" % name, 3)
      if c < 2:
        node.display = DISPLAY[c]
        node.elem.set_style(styles.StyleProperties.Display, DISPLAY[c])
        node.tags.add("display")
    elif f.startswith("d="):
      node.display = styles.DisplayType[f[2:]]
      node.elem.set_style(styles.StyleProperties.Display, node.display)
      node.tags.add("display")
    elif f == "a" or f.startswith("a=") or f == "a?":
      if f == "a?" and not ex.boolean("%s_has_anim%d" % (name, nstep)):
        nstep += 1
        continue
      if "=" in f:
        val = styles.DisplayType[f[2:]]
      else:
        val = DISPLAY[ex.choice("%s_anim%d_v" % (name, nstep), 2)]
      b = ex.real("%s_anim%d_b" % (name, nstep), 0)
      e = ex.real("%s_anim%d_e" % (name, nstep), 0)
      info.time_syms += [b, e]
      node.steps.append((b, e, val))
      node.elem.add_animation_step(model.DiscreteAnimationStep(styles.StyleProperties.Display, b, e, val))
      node.tags.add("display-animation")
      if node.begin is not None:
        node.tags.add("set-on-offset-element")
      nstep += 1
    elif f.startswith("ac"):
      # tts:color animation step ("ac", "ac=green"), symbolic interval; "c=blue": specified colour
      val = styles.NamedColors[f[3:] if "=" in f else "red"].value
      b = ex.real("%s_anim%d_b" % (name, nstep), 0)
      e = ex.real("%s_anim%d_e" % (name, nstep), 0)
      info.time_syms += [b, e]
      node.color_steps.append((b, e, val))
      node.elem.add_animation_step(model.DiscreteAnimationStep(styles.StyleProperties.Color, b, e, val))
      node.tags.add("color-animation")
      if node.begin is not None:
        node.tags.add("set-on-offset-element")
      nstep += 1
    elif f.startswith("c="):
      node.color = styles.NamedColors[f[2:]].value
      node.elem.set_style(styles.StyleProperties.Color, node.color)
      node.styles[styles.StyleProperties.Color] = node.color
    elif f.split("=")[0] in STYLE_FLAGS:
      k, v = f.split("=")
      prop, conv = STYLE_FLAGS[k]
      node.elem.set_style(prop, conv(v))
      node.styles[prop] = conv(v)
      node.tags.add(k)
    elif f.split("=")[0] in ANIM_FLAGS:
      k, v = f.split("=")
      prop, conv = ANIM_FLAGS[k]
      b = ex.real("%s_anim%d_b" % (name, nstep), 0)
      e = ex.real("%s_anim%d_e" % (name, nstep), 0)
      info.time_syms += [b, e]
      node.elem.add_animation_step(model.DiscreteAnimationStep(prop, b, e, conv(v)))
      node.other_steps.append((prop, b, e, conv(v)))
      node.tags.add(k)
      nstep += 1


def build(ex, skeleton, regions=(), initials=()):
  """returns DocInfo; the document is built with the real model API"""
  info = DocInfo()
  doc = model.ContentDocument()
  info.doc = doc
  for k, v in initials:
    prop, conv = STYLE_FLAGS[k] if k in STYLE_FLAGS else (styles.StyleProperties.Display, lambda x: styles.DisplayType[x])
    doc.put_initial_value(prop, conv(v))
    info.tags.add("initial-" + k)
  for k, (rid, rflags) in enumerate(regions):
    rn = ENode(-1 - k, "region", None)
    rn.eid = rid
    rn.elem = model.Region(rid, doc)
    fl = _flags(rflags)
    _timing(ex, rid, fl, rn, info)
    _display(ex, rid, fl, rn, info)
    doc.put_region(rn.elem)
    info.regions.append(rn)
  region_ids = [r.eid for r in info.regions]

  def rec(sk, parent):
    kind = sk[0]
    node = ENode(len(info.nodes), kind, parent)
    info.nodes.append(node)
    name = "e%d" % node.idx
    if kind == "text":
      node.text = sk[2]
      node.elem = model.Text(doc, sk[2])
      return node
    node.elem = KINDS[kind](doc)
    node.eid = name
    node.elem.set_id(name)
    fl = _flags(sk[1])
    if kind != "br":
      _timing(ex, name, fl, node, info)
      for f in fl:
        if f == "r?" and region_ids:
          c = ex.choice("%s_region" % name, len(region_ids) + 1)
          if c > 0:
            node.region = region_ids[c - 1]
        elif f.startswith("r="):
          node.region = f[2:]
      if node.region is not None:
        node.elem.set_region(doc.get_region(node.region))
        node.tags.add("region-ref")
    _display(ex, name, fl, node, info)
    if "sp" in fl:
      node.space = "preserve"
      node.elem.set_space(model.WhiteSpaceHandling.PRESERVE)
    elif parent is not None and kind != "br":
      node.space = parent.space
      node.elem.set_space(model.WhiteSpaceHandling.PRESERVE if node.space == "preserve" else model.WhiteSpaceHandling.DEFAULT)
    if "sd" in fl:
      node.space = "default"
      node.elem.set_space(model.WhiteSpaceHandling.DEFAULT)
    kids = [rec(c, node) for c in (sk[2] if len(sk) > 2 else [])]
    node.children = kids
    if kids:
      node.elem.push_children([k.elem for k in kids])
    if kind == "ruby":
      info.tags.add("ruby")
    return node

  if skeleton is not None:
    info.root = rec(skeleton, None)
    doc.set_body(info.root.elem)
  return info


def T(text):
  return ["text", "", text]


def S(text, flags=""):
  return ["span", flags, [T(text)]]
