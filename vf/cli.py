"""./check <property-id> [--tier quick|thorough] [--replay file]"""
import argparse
import os
import sys

from . import runner


def main():
  import logging
  logging.disable(logging.CRITICAL)   # ttconv logs every merge / default end; not part of the verdict
  ap = argparse.ArgumentParser()
  ap.add_argument("prop")
  ap.add_argument("--tier", default=os.environ.get("VERIF_TIER", "quick"), choices=["quick", "thorough"])
  ap.add_argument("--replay")
  a = ap.parse_args()
  if a.replay:
    sys.exit(runner.replay_file(a.replay))
  seed = int(os.environ.get("VERIF_SEED", "0") or 0)
  runner.load_all()
  extra = runner.EXTRA_CHECKS.get(a.prop, [])
  sys.exit(runner.check_property(a.prop, a.tier, extra, seed))


if __name__ == "__main__":
  main()
