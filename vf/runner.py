"""Reporting layer: partitions -> worker processes -> merge -> replay -> known findings -> evidence."""
from __future__ import annotations

import hashlib
import importlib
import json
import multiprocessing as mp
import os
import sys
import time
import traceback

from . import symrun
from .symrun import Explorer, Concrete, HarnessError, Inconclusive

ROOT = os.path.dirname(os.path.dirname(os.path.abspath(__file__)))
EVIDENCE_DIR = os.path.join(ROOT, "evidence")
REPLAY_DIR = os.path.join(ROOT, "replays")
KNOWN_FILE = os.path.join(ROOT, "known_findings.json")

EXIT_OK, EXIT_VIOLATION, EXIT_INCONCLUSIVE = 0, 1, 2


class Harness:
  """base class.  One harness = one symbolic driver around real ttconv functions."""
  name = "?"
  properties = ()            # property ids whose assertions this harness carries ("C01:..." aids)
  functions = ()             # dotted names of the real functions driven (informational; measured list is added)
  assumptions = ()
  outside = ()
  required_witnesses = ()
  budget_s = {"quick": 120, "thorough": 1500}
  max_paths = 10 ** 7
  validate_models = 6        # path models per partition re-run natively

  def partitions(self, tier):  # -> list of JSON-able dicts
    return [{}]

  def patches(self, params):   # harness-level stubs installed in symbolic mode only
    return []

  def stubs(self, params):     # environment stubs needed in both modes (e.g. tuple-passing struct stand-in)
    return []

  def body(self, ex, params):
    raise NotImplementedError


_REGISTRY = {}


def register(h):
  _REGISTRY[h.name] = h
  return h


PROP_MODULES = ["c12", "c01", "c02", "c03", "c04", "c05", "c06", "c09", "c10", "c11", "c13", "c14", "c15", "c16",
                "c17", "c08", "c19"]


def load_all():
  if _REGISTRY:
    return _REGISTRY
  for m in PROP_MODULES:
    try:
      importlib.import_module("vf.props." + m)
    except ModuleNotFoundError as e:
      if e.name != "vf.props." + m:
        raise
  symrun.snapshot_lazy_state("ttconv")
  return _REGISTRY


# ---------------------------------------------------------------------------
# worker


def _profile_functions(fn):
  seen = set()

  def prof(frame, event, arg):
    if event == "call":
      f = frame.f_code.co_filename
      if "/ttconv/" in f:
        seen.add(f.split("/ttconv/")[-1][:-3].replace("/", ".") + ":" + frame.f_code.co_qualname)

  sys.setprofile(prof)
  try:
    fn()
  finally:
    sys.setprofile(None)
  return sorted(seen)


def run_partition(args):
  hname, params, tier, active, index = args
  import logging
  logging.disable(logging.CRITICAL)
  load_all()
  h = _REGISTRY[hname]
  t0 = time.time()
  out = {"harness": hname, "params": params, "paths": 0, "decisions": 0, "queries": 0, "proved": 0,
         "solver_s": 0.0, "exhausted": False, "inconclusive": None, "violations": [], "witnesses": {},
         "outcomes": {}, "samples": [], "validated": 0, "functions": [], "cuts": [], "error": None}
  try:
    ex = Explorer(budget_s=h.budget_s.get(tier, 600), max_paths=h.max_paths)
    ex.active = set(active)
    ex.tier = tier
    ex.keep_models = h.validate_models
    with symrun.patched(*(list(h.patches(params)) + list(h.stubs(params)))):
      ex.run(lambda e: h.body(e, params))
    out.update(paths=ex.paths, decisions=ex.decisions, queries=ex.queries, proved=ex.proved,
               solver_s=round(ex.solver_s, 3), exhausted=ex.exhausted, inconclusive=ex.inconclusive,
               witnesses=ex.witnesses, outcomes=ex.outcomes, cuts=sorted(map(str, ex.cuts)),
               samples=[{"params": params, "model": m} for m in ex.samples[:2]])
    sym_aids = set(v.aid for v in ex.violations)
    # replay every violation natively (no proxies, no patches)
    seen = set()
    for v in ex.violations:
      key = (v.aid, json.dumps({k: x for k, x in v.detail.items() if not str(k).startswith("_")} if isinstance(v.detail, dict) else v.detail, sort_keys=True, default=str))
      if key in seen:
        continue
      seen.add(key)
      cx = Concrete(v.model)
      cx.active = set(active)
      cx.tier = tier
      try:
        with symrun.patched(*h.stubs(params)):
          cx.run(lambda e: h.body(e, params))
        rep = [w for w in cx.violations if w.aid == v.aid]
        reproduced = bool(rep)
        observed = rep[0].detail if rep else None
      except HarnessError as e:
        reproduced, observed = False, "harness error in replay: %s" % e
      out["violations"].append({"assertion": v.aid, "model": v.model, "detail": v.detail,
                                "reproduced": reproduced, "observed": observed})
    # validate proxies: re-run sampled path models natively; native violations must be known symbolically
    funcs = set()
    for i, m in enumerate(ex.path_models):
      cx = Concrete(m)
      cx.active = set(active)
      cx.tier = tier
      with symrun.patched(*h.stubs(params)):
        if i == 0 and index == 0:
          funcs.update(_profile_functions(lambda: cx.run(lambda e: h.body(e, params))))
        else:
          cx.run(lambda e: h.body(e, params))
      extra = set(w.aid for w in cx.violations) - sym_aids
      if extra:
        out["error"] = "native run violates %s with model %s but the symbolic run proved it (proxy mismatch)" % (
          sorted(extra), m)
        break
      out["validated"] += 1
    out["functions"] = sorted(funcs)
  except HarnessError as e:
    out["error"] = "harness error: %s" % e
  except Exception:  # pylint: disable=broad-except
    out["error"] = "unexpected: " + traceback.format_exc()[-1500:]
  out["wall_s"] = round(time.time() - t0, 3)
  return out


# ---------------------------------------------------------------------------
# known findings


def load_known():
  if not os.path.exists(KNOWN_FILE):
    return []
  with open(KNOWN_FILE, encoding="utf-8") as f:
    return json.load(f)["findings"]


def match_known(known, prop, hname, viol):
  d = viol.get("detail") or {}
  for k in known:
    if k.get("status") != "known" or k["property"] != prop:
      continue
    if k.get("harness") not in (None, hname):
      continue
    ka = k.get("assertion")
    if ka is not None and viol["assertion"] not in (ka if isinstance(ka, list) else [ka]):
      continue
    m = k.get("match", {})
    if not isinstance(d, dict):
      if not m:
        return k
      continue
    ok = True
    for a, b in m.items():
      if isinstance(b, list):   # every listed tag must be among the violation's tags
        have = d.get(a)
        ok = ok and isinstance(have, list) and all(x in have for x in b)
      else:
        ok = ok and str(d.get(a)) == str(b)
    if ok:
      return k
  return None


# ---------------------------------------------------------------------------
# main entry


def write_replay(prop, hname, params, viol):
  os.makedirs(REPLAY_DIR, exist_ok=True)
  blob = {"property": prop, "harness": hname, "params": params, "assertion": viol["assertion"],
          "model": viol["model"], "detail": viol["detail"], "observed": viol.get("observed")}
  s = json.dumps(blob, sort_keys=True, default=str)
  path = os.path.join(REPLAY_DIR, "%s-%s.json" % (prop, hashlib.sha1(s.encode()).hexdigest()[:10]))
  with open(path, "w", encoding="utf-8") as f:
    json.dump(blob, f, indent=1, default=str)
  return path


def replay_file(path):
  load_all()
  with open(path, encoding="utf-8") as f:
    blob = json.load(f)
  h = _REGISTRY[blob["harness"]]
  cx = Concrete(blob["model"])
  cx.active = {blob["property"]}
  cx.tier = "quick"
  with symrun.patched(*h.stubs(blob["params"])):
    cx.run(lambda e: h.body(e, blob["params"]))
  hits = [v for v in cx.violations if v.aid == blob["assertion"]]
  for v in cx.violations:
    print("replay: assertion %s violated: %s" % (v.aid, json.dumps(v.detail, default=str)))
  if hits:
    print("VIOLATION property=%s replay=%s" % (blob["property"], path))
    return EXIT_VIOLATION
  print("replay: assertion %s holds on this input" % blob["assertion"])
  return EXIT_OK


def _run_extra(fn, tier):
  try:
    return fn(tier)
  except BaseException:  # pylint: disable=broad-except
    return {"name": fn.__name__, "error": "unexpected: " + traceback.format_exc()[-1500:], "violations": []}


def effective_tier(h, prop, tier):
  """a harness may serve a *secondary* property with its quick partitions in both tiers (`quick_only_for`): its deep tier is
  explored under its own property, and the roll-up property would otherwise repeat hours of the same paths"""
  if tier == "thorough" and h.properties and h.properties[0] != prop and prop in getattr(h, "quick_only_for", ()):
    return "quick"
  return tier


def check_property(prop, tier, extra_checks=None, seed=0):
  """run every harness that carries assertions of `prop`; returns exit code"""
  t0 = time.time()
  load_all()
  harnesses = [h for h in _REGISTRY.values() if prop in h.properties]
  if tier == "quick":
    # a harness may leave the quick tier of a *secondary* property (its paths are all run in the thorough tier)
    harnesses = [h for h in harnesses if h.properties[0] == prop or prop not in getattr(h, "thorough_only_for", ())]
  if not harnesses and not extra_checks:
    print("no harness registered for %s" % prop)
    return EXIT_INCONCLUSIVE
  jobs = []
  for h in harnesses:
    for i, p in enumerate(h.partitions(effective_tier(h, prop, tier))):
      jobs.append((h.name, p, effective_tier(h, prop, tier), [prop], i))
  # largest partitions first is unknown; rotate by seed only (order has no influence on the verdict)
  if seed and jobs:
    k = seed % len(jobs)
    jobs = jobs[k:] + jobs[:k]
  ncpu = min(16, os.cpu_count() or 1)
  results = []
  extra = []
  # extra checks patch module attributes (FP-mode shadows): they run in their own forked processes so that the patches can
  # never leak into partition workers forked meanwhile
  from concurrent.futures import ProcessPoolExecutor
  with ProcessPoolExecutor(max(1, len(extra_checks or [])), mp_context=mp.get_context("fork")) as tp:
    futs = [tp.submit(_run_extra, fn, tier) for fn in (extra_checks or [])]
    if jobs:
      with mp.get_context("fork").Pool(ncpu, maxtasksperchild=8) as pool:
        for r in pool.imap_unordered(run_partition, jobs, chunksize=1):
          results.append(r)
    extra = [f.result() for f in futs]
  return report(prop, tier, seed, harnesses, results, extra, time.time() - t0)


def report(prop, tier, seed, harnesses, results, extra, wall):
  known = load_known()
  code = EXIT_OK
  lines = []
  n_viol = 0
  errors = []
  known_hit = {}
  new_viol = []
  unreproduced = []
  for r in results:
    if r["error"]:
      errors.append("%s %s: %s" % (r["harness"], json.dumps(r["params"]), r["error"]))
    if r["inconclusive"]:
      errors.append("%s %s: inconclusive: %s" % (r["harness"], json.dumps(r["params"]), r["inconclusive"]))
    elif not r["exhausted"] and not r["violations"] and not r["error"]:
      errors.append("%s %s: path tree not exhausted" % (r["harness"], json.dumps(r["params"])))
    for v in r["violations"]:
      if not v["assertion"].startswith(prop + ":"):
        continue
      if not v["reproduced"]:
        unreproduced.append((r, v))
        continue
      k = match_known(known, prop, r["harness"], v)
      if k is not None:
        known_hit.setdefault(k["id"], (k, r, v))
      else:
        new_viol.append((r, v))
  for e in extra:
    for v in e.get("violations", []):
      if not v.get("reproduced", True):
        unreproduced.append(({"harness": e["name"], "params": {}}, v))
        continue
      k = match_known(known, prop, e["name"], v)
      if k is not None:
        known_hit.setdefault(k["id"], (k, {"harness": e["name"], "params": v.get("params", {})}, v))
      else:
        new_viol.append(({"harness": e["name"], "params": v.get("params", {})}, v))
    if e.get("error"):
      errors.append("%s: %s" % (e["name"], e["error"]))
  # witnesses (vacuity guard)
  wit = {}
  for r in results:
    for k, v in r["witnesses"].items():
      wit[(r["harness"], k)] = wit.get((r["harness"], k), False) or v
  for h in harnesses:
    if not h.properties or h.properties[0] != prop:
      continue   # witnesses guard the harness's own property; secondary properties reuse its paths
    for w in h.required_witnesses:
      if not wit.get((h.name, w), False):
        if not any(r["harness"] == h.name and r["violations"] for r in results):
          errors.append("%s: reachability witness '%s' never satisfied (vacuous harness?)" % (h.name, w))
  for kid, (k, r, v) in sorted(known_hit.items()):
    print("KNOWN-FINDING: property=%s %s [%s]" % (prop, k["what"], kid))
  seen_sig = set()
  for r, v in new_viol:
    dd = v.get("detail")
    sig = (r["harness"], v["assertion"], json.dumps({k: x for k, x in dd.items() if not str(k).startswith("_")} if isinstance(dd, dict) else dd, sort_keys=True, default=str))
    if sig in seen_sig:
      continue
    seen_sig.add(sig)
    n_viol += 1
    path = write_replay(prop, r["harness"], r["params"], v)
    print("violation: harness=%s assertion=%s detail=%s model=%s" % (
      r["harness"], v["assertion"], json.dumps(v.get("detail"), default=str), json.dumps(v["model"])))
    print("VIOLATION property=%s replay=%s" % (prop, path))
    code = EXIT_VIOLATION
  for r, v in unreproduced:
    errors.append("%s: solver model for %s did not reproduce natively (encoding error): %s %s" % (
      r["harness"], v["assertion"], json.dumps(v["model"]), json.dumps(v.get("detail"), default=str)))
  if errors:
    for e in errors[:20]:
      print("INCONCLUSIVE: " + e)
    if code == EXIT_OK:
      code = EXIT_INCONCLUSIVE
  write_evidence(prop, tier, seed, harnesses, results, extra, wall, n_viol, sorted(known_hit), errors)
  for r in sorted(results, key=lambda r: -r["wall_s"])[:3]:
    print("slowest: %s %s %.1fs %d paths" % (r["harness"], json.dumps(r["params"]), r["wall_s"], r["paths"]))
  tot_paths = sum(r["paths"] for r in results)
  print("%s %s: %d partitions, %d paths, %d assertions discharged, %d solver queries, solver %.1fs, wall %.1fs -> %s" % (
    prop, tier, len(results), tot_paths, sum(r["proved"] for r in results) + sum(e.get("obligations", 0) for e in extra),
    sum(r["queries"] for r in results) + sum(e.get("queries", 0) for e in extra),
    sum(r["solver_s"] for r in results) + sum(e.get("solver_s", 0) for e in extra), wall,
    {0: "HOLDS within bounds", 1: "VIOLATED", 2: "INCONCLUSIVE"}[code]))
  return code


def write_evidence(prop, tier, seed, harnesses, results, extra, wall, n_viol, known_ids, errors):
  os.makedirs(EVIDENCE_DIR, exist_ok=True)
  funcs = set()
  for r in results:
    funcs.update(r["functions"])
  for h in harnesses:
    funcs.update(h.functions)
  for e in extra:
    funcs.update(e.get("functions", []))
  samples = []
  per_h = {}
  for r in results:
    d = per_h.setdefault(r["harness"], {"partitions": 0, "paths": 0, "decisions": 0, "queries": 0, "assertions": 0,
                                       "solver_s": 0.0, "exhausted": True, "outcomes": {}, "validated": 0})
    d["partitions"] += 1
    d["paths"] += r["paths"]
    d["decisions"] += r["decisions"]
    d["queries"] += r["queries"]
    d["assertions"] += r["proved"]
    d["solver_s"] = round(d["solver_s"] + r["solver_s"], 3)
    d["exhausted"] = d["exhausted"] and r["exhausted"]
    d["validated"] += r["validated"]
    for k, v in r["outcomes"].items():
      d["outcomes"][k] = d["outcomes"].get(k, 0) + v
    if len(samples) < 6 and r["samples"]:
      samples.append({"harness": r["harness"], **r["samples"][0]})
  for e in extra:
    per_h[e["name"]] = {k: v for k, v in e.items() if k not in ("violations", "functions", "samples")}
    samples.extend(e.get("samples", [])[:3])
  states = sum(r["paths"] for r in results) + sum(e.get("obligations", 0) for e in extra)
  transitions = sum(r["decisions"] for r in results) + sum(e.get("queries", 0) for e in extra)
  ev = {
    "property_id": prop,
    "tier": tier,
    "seed": seed,
    "level": "model_checking",
    "coverage": {
      "states": states,
      "transitions": max(transitions, 1) if states else 0,
      "traces_validated_against_impl": sum(r["validated"] for r in results) + sum(e.get("validated", 0) for e in extra),
      "samples": samples or [{"note": "no path explored"}],
      "exhaustive": bool(results or extra) and all(r["exhausted"] for r in results) and not errors,
      "explanation": "states = symbolic execution paths of the real functions (each path is a conjunction of branch "
                     "conditions over the symbolic inputs, covering all values that satisfy it) plus closed solver "
                     "obligations; transitions = solver-decided branch decisions; every assertion is an SMT query "
                     "PC ∧ ¬assertion answered unsat",
      "partitions": len(results),
      "assertions_discharged": sum(r["proved"] for r in results) + sum(e.get("obligations", 0) for e in extra),
      "solver_queries": sum(r["queries"] for r in results) + sum(e.get("queries", 0) for e in extra),
      "solver_s": round(sum(r["solver_s"] for r in results) + sum(e.get("solver_s", 0) for e in extra), 2),
      "functions_encoded": sorted(funcs),
      "harnesses": per_h,
      "bounds": {h.name: getattr(h, "bounds", {}).get(effective_tier(h, prop, tier), "") +
                 (" [quick partitions: the thorough tier of this harness runs under %s]" % h.properties[0]
                  if effective_tier(h, prop, tier) != tier else "") for h in harnesses},
      "outside_the_claim": sorted(set(o for h in harnesses for o in h.outside)),
      "known_findings_reported": known_ids,
      "inconclusive": errors[:20],
      "fp_cuts": sorted(set(c for r in results for c in r["cuts"])),
    },
    "assumptions": sorted(set(a for h in harnesses for a in h.assumptions) | set(
      a for e in extra for a in e.get("assumptions", []))),
    "wall_s": round(wall, 2),
    "violations": n_viol,
  }
  with open(os.path.join(EVIDENCE_DIR, prop + ".json"), "w", encoding="utf-8") as f:
    json.dump(ev, f, indent=1, default=str)


# closed solver obligations (E3) registered per property: prop -> [fn(tier) -> dict]
EXTRA_CHECKS = {}


def extra_check(prop):
  def deco(fn):
    EXTRA_CHECKS.setdefault(prop, []).append(fn)
    return fn
  return deco
