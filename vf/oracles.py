"""Reference oracles written from the standards; they share no code with ttconv.

R-ISD: TTML2 §11.3.1.3 [associate region], §12 time containment, §10.2.x tts:display.
All functions return z3 terms built from the numbers stored in `docgen.ENode` (symbolic or concrete)."""
from __future__ import annotations

import z3

import ttconv.style_properties as styles

from .symrun import zreal, RV

TRUE = z3.BoolVal(True)
FALSE = z3.BoolVal(False)
INF = None


def _min_end(a, b):
  """min of two optional z3 reals (None = indefinite)"""
  if a is None:
    return b
  if b is None:
    return a
  return z3.If(a <= b, a, b)


class Intervals:
  """absolute active intervals [begin, end) of every node: begin = parent begin + offset,
  end = min(parent begin + end offset, parent end)  (TTML2 time containment, par semantics of the model)"""

  def __init__(self, info):
    self.iv = {}
    for r in info.regions:
      self.iv[r] = self._abs(r, RV(0), None)
    for n in info.nodes:
      if n.parent is None:
        self.iv[n] = self._abs(n, RV(0), None)
      else:
        pb, pe = self.iv[n.parent]
        self.iv[n] = self._abs(n, pb, pe)

  @staticmethod
  def _abs(n, pb, pe):
    b = pb + zreal(n.begin) if n.begin is not None else pb
    e = pb + zreal(n.end) if n.end is not None else None
    return b, _min_end(e, pe)

  def active(self, n, t):
    b, e = self.iv[n]
    c = b <= t
    if e is not None:
      c = z3.And(c, t < e)
    return c

  def step_active(self, n, step, t):
    """animation step interval is relative to the animated element's own interval"""
    b, e = self.iv[n]
    sb = b + zreal(step[0]) if step[0] is not None else b
    se = b + zreal(step[1]) if step[1] is not None else None
    se = _min_end(se, e)
    c = sb <= t
    if se is not None:
      c = z3.And(c, t < se)
    return c


def display_not_none(iv, n, t, initial=None):
  """computed tts:display != none: active animation step (last in document order wins), else specified,
  else the document's initial value, else auto"""
  if n.display is not None:
    base = z3.BoolVal(n.display is not styles.DisplayType.none)
  elif initial is not None:
    base = z3.BoolVal(initial is not styles.DisplayType.none)
  else:
    base = TRUE
  r = base
  for step in n.steps:  # later steps override earlier ones
    r = z3.If(iv.step_active(n, step, t), z3.BoolVal(step[2] is not styles.DisplayType.none), r)
  return r


def region_assoc_ok(info, leaf, region):
  """[associate region]: walking from the body to the leaf, the nearest region reference (own or inherited)
  must never name another region, and the leaf's effective reference must be this region -- or, when the document
  declares no region at all, everything belongs to the default region.  Structural, hence a python bool."""
  if region is None:
    return True
  assoc = None
  for n in leaf.chain():
    if n.region is not None:
      assoc = n.region
    if assoc is not None and assoc != region.eid:
      return False
  return assoc == region.eid


def visible(info, iv, leaf, region, t, initial_display=None):
  """z3 Bool: leaf (text or br) is presented in `region` (None = default region) at time t"""
  if not region_assoc_ok(info, leaf, region):
    return FALSE
  cs = []
  if region is not None:
    cs.append(iv.active(region, t))
    cs.append(display_not_none(iv, region, t, initial_display))
  for n in leaf.chain():
    cs.append(iv.active(n, t))
    cs.append(display_not_none(iv, n, t, initial_display))
  if leaf.kind == "br":
    cs.append(display_not_none(iv, leaf, t, None))
  return z3.simplify(z3.And(*cs)) if cs else TRUE


def isd_leaves(isd):
  """observed content of a snapshot: {region id: [(kind, key)]} with key = text for Text, id for Br, in tree order"""
  import ttconv.model as model
  out = {}
  for r in isd.iter_regions():
    lst = []
    for e in r.dfs_iterator():
      if isinstance(e, model.Text):
        lst.append(("text", e.get_text()))
      elif isinstance(e, model.Br):
        lst.append(("br", e.get_id()))
    out[r.get_id()] = lst
  return out
