"""Exact floating-point mode for straight-line arithmetic kernels (QF_BVFP).

Used where binary rounding *is* the subject (SRT/VTT `ms/1000`, `SmpteTimeCode.from_seconds`).
Integers are 64-bit signed bit-vectors that carry a static magnitude bound (so absence of wrap-around
is checked when the term is built, not assumed); a Fraction is a bit-vector numerator over a constant
positive denominator; floats are IEEE binary64 terms, every operation correctly rounded (RNE), `int()`
is round-toward-zero conversion.  No branching on symbolic values is supported (HarnessError)."""
from __future__ import annotations

import math
from fractions import Fraction

import z3

from .symrun import HarnessError

F64 = z3.Float64()
F128 = z3.Float128()
RNE = z3.RNE()
RTZ = z3.RTZ()
LIMIT = 1 << 62
EXACT = 1 << 53


def _bv(v):
  return z3.BitVecVal(v, 64)


class FPInt:
  def __init__(self, z, maxabs):
    if maxabs >= LIMIT:
      raise HarnessError("possible 64-bit overflow in FP-mode integer")
    self.z = z
    self.maxabs = maxabs

  @staticmethod
  def lift(o):
    if isinstance(o, FPInt):
      return o
    if isinstance(o, bool):
      o = int(o)
    if isinstance(o, int):
      return FPInt(_bv(o), abs(o))
    return None

  def __add__(s, o):
    l = FPInt.lift(o)
    if l is not None:
      return FPInt(s.z + l.z, s.maxabs + l.maxabs)
    if isinstance(o, FPFloat):
      return s.to_float() + o
    if isinstance(o, float):
      return s.to_float() + FPFloat.const(o)
    if isinstance(o, (FPFrac, Fraction)):
      return FPFrac(s.z, 1, s.maxabs) + o
    return NotImplemented

  __radd__ = __add__

  def __sub__(s, o):
    l = FPInt.lift(o)
    if l is not None:
      return FPInt(s.z - l.z, s.maxabs + l.maxabs)
    if isinstance(o, (FPFrac, Fraction)):
      return FPFrac(s.z, 1, s.maxabs) - o
    return NotImplemented

  def __rsub__(s, o):
    l = FPInt.lift(o)
    if l is not None:
      return FPInt(l.z - s.z, s.maxabs + l.maxabs)
    return NotImplemented

  def __mul__(s, o):
    l = FPInt.lift(o)
    if l is not None:
      return FPInt(s.z * l.z, s.maxabs * l.maxabs)
    if isinstance(o, Fraction):
      return FPFrac(s.z, 1, s.maxabs) * o
    if isinstance(o, float):
      return s.to_float() * FPFloat.const(o)
    if isinstance(o, FPFloat):
      return s.to_float() * o
    return NotImplemented

  __rmul__ = __mul__

  def to_float(s):
    if s.maxabs >= EXACT:
      # conversion itself rounds; z3 models that correctly
      pass
    return FPFloat(z3.fpSignedToFP(RNE, s.z, F64))

  def __truediv__(s, o):
    # CPython int/int true division is correctly rounded
    l = FPInt.lift(o)
    if l is not None:
      if s.maxabs >= EXACT or l.maxabs >= EXACT:
        raise HarnessError("int/int beyond 2^53 is not a single rounding in this encoding")
      return FPFloat(z3.fpDiv(RNE, z3.fpSignedToFP(RNE, s.z, F64), z3.fpSignedToFP(RNE, l.z, F64)))
    if isinstance(o, float):
      return s.to_float() / FPFloat.const(o)
    if isinstance(o, Fraction):
      return FPFrac(s.z, 1, s.maxabs) / o
    return NotImplemented

  def __trunc__(s): return s
  def __floor__(s): return s
  def __ceil__(s): return s
  def __round__(s, nd=None): return s

  def __bool__(s):
    raise HarnessError("branch on a symbolic value in FP mode")

  def __hash__(s):
    raise HarnessError("hash of a symbolic value in FP mode")

  def __eq__(s, o):
    raise HarnessError("comparison of a symbolic value in FP mode")

  __lt__ = __le__ = __gt__ = __ge__ = __eq__


class FPFrac:
  """num/den with num a BV64 term, den a positive python int"""

  def __init__(self, num, den, maxabs):
    if maxabs >= LIMIT or den >= LIMIT:
      raise HarnessError("possible 64-bit overflow in FP-mode fraction")
    self.num = num
    self.den = den
    self.maxabs = maxabs  # bound on |num|

  def __mul__(s, o):
    if isinstance(o, bool):
      o = int(o)
    if isinstance(o, int):
      o = Fraction(o)
    if isinstance(o, Fraction):
      return FPFrac(s.num * _bv(o.numerator), s.den * o.denominator, s.maxabs * abs(o.numerator))
    if isinstance(o, float):
      # Fraction * float -> float(Fraction) * float
      return s.to_float() * FPFloat.const(o)
    if isinstance(o, FPFloat):
      return s.to_float() * o
    return NotImplemented

  __rmul__ = __mul__

  def __truediv__(s, o):
    if isinstance(o, int) and not isinstance(o, bool):
      o = Fraction(o)
    if isinstance(o, Fraction) and o > 0:
      return FPFrac(s.num * _bv(o.denominator), s.den * o.numerator, s.maxabs * o.denominator)
    if isinstance(o, float):
      return s.to_float() / FPFloat.const(o)
    return NotImplemented

  def _addsub(s, o, sign):
    if isinstance(o, int) and not isinstance(o, bool):
      o = Fraction(o)
    if isinstance(o, Fraction):
      n = s.num * _bv(o.denominator) + _bv(sign * o.numerator * s.den)
      return FPFrac(n, s.den * o.denominator, s.maxabs * o.denominator + abs(o.numerator) * s.den)
    if isinstance(o, FPInt):
      o = FPFrac(o.z, 1, o.maxabs)
    if isinstance(o, FPFrac):
      on = o.num if sign > 0 else -o.num
      return FPFrac(s.num * _bv(o.den) + on * _bv(s.den), s.den * o.den, s.maxabs * o.den + o.maxabs * s.den)
    if isinstance(o, float):
      return s.to_float() + FPFloat.const(sign * o)
    return NotImplemented

  def __add__(s, o): return s._addsub(o, 1)
  __radd__ = __add__
  def __sub__(s, o): return s._addsub(o, -1)

  def to_float(s):
    # Fraction.__float__ is numerator / denominator with one correct rounding (of the reduced fraction,
    # which has the same real value)
    if s.maxabs >= EXACT or s.den >= EXACT:
      raise HarnessError("float(Fraction) beyond 2^53 is not a single rounding in this encoding")
    return FPFloat(z3.fpDiv(RNE, z3.fpSignedToFP(RNE, s.num, F64), z3.FPVal(s.den, F64)))

  def __trunc__(s):
    return FPInt(s.num / _bv(s.den), s.maxabs)  # bvsdiv truncates toward zero

  def __floor__(s):
    q = s.num / _bv(s.den)  # signed division truncates toward zero
    r = z3.SRem(s.num, _bv(s.den))
    return FPInt(z3.If(z3.And(r != 0, s.num < 0), q - 1, q), s.maxabs + 1)

  def __ceil__(s):
    q = s.num / _bv(s.den)
    r = z3.SRem(s.num, _bv(s.den))
    return FPInt(z3.If(z3.And(r != 0, s.num > 0), q + 1, q), s.maxabs + 1)

  def __bool__(s):
    raise HarnessError("branch on a symbolic value in FP mode")

  def __hash__(s):
    raise HarnessError("hash of a symbolic value in FP mode")

  def __eq__(s, o):
    raise HarnessError("comparison of a symbolic value in FP mode")

  __lt__ = __le__ = __gt__ = __ge__ = __eq__


class FPFloat:
  def __init__(self, z):
    self.z = z

  @staticmethod
  def const(x: float):
    return FPFloat(z3.FPVal(x, F64))

  @staticmethod
  def lift(o):
    if isinstance(o, FPFloat):
      return o
    if isinstance(o, float):
      return FPFloat.const(o)
    if isinstance(o, bool):
      o = int(o)
    if isinstance(o, int):
      if abs(o) >= EXACT:
        raise HarnessError("large int constant mixed with float")
      return FPFloat.const(float(o))
    if isinstance(o, FPInt):
      return o.to_float()
    if isinstance(o, FPFrac):
      return o.to_float()
    if isinstance(o, Fraction):
      return FPFloat.const(float(o))
    return None

  def _bin(s, o, f, swap=False):
    l = FPFloat.lift(o)
    if l is None:
      return NotImplemented
    a, b = (l.z, s.z) if swap else (s.z, l.z)
    return FPFloat(f(RNE, a, b))

  def __add__(s, o): return s._bin(o, z3.fpAdd)
  def __radd__(s, o): return s._bin(o, z3.fpAdd, True)
  def __sub__(s, o): return s._bin(o, z3.fpSub)
  def __rsub__(s, o): return s._bin(o, z3.fpSub, True)
  def __mul__(s, o): return s._bin(o, z3.fpMul)
  def __rmul__(s, o): return s._bin(o, z3.fpMul, True)
  def __truediv__(s, o): return s._bin(o, z3.fpDiv)
  def __rtruediv__(s, o): return s._bin(o, z3.fpDiv, True)

  def __trunc__(s):
    return FPInt(z3.fpToSBV(RTZ, s.z, z3.BitVecSort(64)), LIMIT - 1)

  def __floor__(s):
    return FPInt(z3.fpToSBV(z3.RTN(), s.z, z3.BitVecSort(64)), LIMIT - 1)

  def __ceil__(s):
    return FPInt(z3.fpToSBV(z3.RTP(), s.z, z3.BitVecSort(64)), LIMIT - 1)

  def __bool__(s):
    raise HarnessError("branch on a symbolic value in FP mode")

  def __hash__(s):
    raise HarnessError("hash of a symbolic value in FP mode")

  def __eq__(s, o):
    raise HarnessError("comparison of a symbolic value in FP mode")

  __lt__ = __le__ = __gt__ = __ge__ = __eq__


def fp_int(x=0, *a):
  if isinstance(x, (FPInt, FPFrac, FPFloat)):
    return x.__trunc__()
  return int(x, *a)


def fp_float(x=0.0):
  if isinstance(x, FPFloat):
    return x
  if isinstance(x, (FPInt, FPFrac)):
    return x.to_float()
  return float(x)


class _FracMeta(type):
  def __instancecheck__(cls, inst):
    return isinstance(inst, (Fraction, FPFrac))


class fp_fraction(metaclass=_FracMeta):
  def __new__(cls, n=0, d=None):
    if isinstance(n, FPFloat) or isinstance(d, FPFloat):
      raise HarnessError("Fraction(float) in FP mode")
    if isinstance(n, (FPInt, FPFrac)):
      base = n if isinstance(n, FPFrac) else FPFrac(n.z, 1, n.maxabs)
      if d is None:
        return base
      return base / d
    return Fraction(n, d) if d is not None else Fraction(n)


def equals_rational(x, num_bv, den: int, num_maxabs: int):
  """z3 Bool: the value `x` (FPFloat | FPFrac | FPInt) equals num/den exactly"""
  if isinstance(x, FPInt):
    x = FPFrac(x.z, 1, x.maxabs)
  if isinstance(x, FPFrac):
    if x.maxabs * den >= LIMIT or num_maxabs * x.den >= LIMIT:
      raise HarnessError("overflow in rational comparison")
    return x.num * _bv(den) == num_bv * _bv(x.den)
  if isinstance(x, FPFloat):
    # x * den == num, evaluated in binary128 where the product of a 53-bit and a <60-bit value is exact
    if den >= (1 << 59) or num_maxabs >= (1 << 112):
      raise HarnessError("rational too large for the exactness encoding")
    wide = z3.fpFPToFP(RNE, x.z, F128)
    prod = z3.fpMul(RNE, wide, z3.FPVal(den, F128))
    return z3.fpEQ(prod, z3.fpSignedToFP(RNE, num_bv, F128))
  raise HarnessError("not an FP-mode value")


def solve(constraints, timeout_s=600):
  """returns ('sat', model) | ('unsat', None) | ('unknown', reason)"""
  s = z3.SolverFor("QF_BVFP") if False else z3.Solver()
  s.set("timeout", int(timeout_s * 1000))
  s.add(*constraints)
  r = s.check()
  if r == z3.sat:
    return "sat", s.model()
  if r == z3.unsat:
    return "unsat", None
  return "unknown", s.reason_unknown()
