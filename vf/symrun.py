"""E1 `symrun` -- re-execution symbolic executor with z3-backed numeric proxies.

The code under test is the real ttconv code; it is handed proxy numbers whose
operators build z3 terms.  When Python needs a truth value, `SymBool.__bool__`
asks the explorer which branch is feasible under the current path condition;
the target is re-executed once per path (DFS with replayed decision prefix)
until the decision tree is exhausted.

Two execution modes share one API so that a harness body can be run

* symbolically (`Explorer`): values are proxies, `prove()` is a solver query;
* concretely (`Concrete`): values are plain `Fraction`/`int` taken from a solver
  model, the real code runs with no proxy at all and `prove()` evaluates the
  condition -- used to replay counterexamples and to validate proxies against
  the native implementation.
"""
from __future__ import annotations

import math
import numbers
import time
import traceback
from fractions import Fraction

import z3

# ---------------------------------------------------------------------------
# control flow exceptions (BaseException: must not be swallowed by `except Exception`)


class Infeasible(BaseException):
  """current path is infeasible (assumption contradicts the path condition)"""


class HarnessError(BaseException):
  """the engine cannot represent what the code does: verdict is inconclusive"""


class Inconclusive(BaseException):
  """solver unknown / budget exhausted"""


class FloatEncountered(HarnessError):
  """strict mode: the code rounds a symbolic value through binary floating point"""


# ---------------------------------------------------------------------------
# z3 helpers


def RV(x) -> z3.ArithRef:
  x = Fraction(x)
  if x.denominator == 1:
    return z3.RealVal(str(x.numerator))
  return z3.RealVal(str(x.numerator)) / z3.RealVal(str(x.denominator))


def zbool(c):
  """lift python bool / SymBool / z3 Bool to a z3 Bool"""
  if isinstance(c, SymBool):
    return c.z
  if isinstance(c, bool):
    return z3.BoolVal(c)
  if z3.is_bool(c):
    return c
  raise HarnessError(f"not a boolean: {c!r}")


def And(*cs):
  cs = [zbool(c) for c in cs]
  return z3.And(*cs) if cs else z3.BoolVal(True)


def Or(*cs):
  cs = [zbool(c) for c in cs]
  return z3.Or(*cs) if cs else z3.BoolVal(False)


def Not(c):
  return z3.Not(zbool(c))


def Implies(a, b):
  return z3.Implies(zbool(a), zbool(b))


_CMP = {z3.Z3_OP_EQ: lambda a, b: a == b, z3.Z3_OP_LE: lambda a, b: a <= b, z3.Z3_OP_LT: lambda a, b: a < b,
        z3.Z3_OP_GE: lambda a, b: a >= b, z3.Z3_OP_GT: lambda a, b: a > b}


def _as_int(t):
  """Int term equal to the Real term t when t is to_real(int), an integral numeral, or a sum/difference of such; else None"""
  if z3.is_app(t) and t.decl().kind() == z3.Z3_OP_TO_REAL:
    return t.arg(0)
  if z3.is_rational_value(t) and t.denominator_as_long() == 1:
    return z3.IntVal(t.numerator_as_long())
  if z3.is_app(t) and t.decl().kind() in (z3.Z3_OP_ADD, z3.Z3_OP_SUB, z3.Z3_OP_UMINUS) and t.num_args() >= 1:
    parts = [_as_int(t.arg(i)) for i in range(t.num_args())]
    if all(p is not None for p in parts):
      k = t.decl().kind()
      if k == z3.Z3_OP_ADD:
        return z3.Sum(parts)
      if k == z3.Z3_OP_UMINUS:
        return -parts[0]
      r = parts[0]
      for p in parts[1:]:
        r = r - p
      return r
  if z3.is_app(t) and t.decl().kind() == z3.Z3_OP_MUL and t.num_args() == 2:
    a, b = _as_int(t.arg(0)), _as_int(t.arg(1))
    if a is not None and b is not None and (z3.is_int_value(a) or z3.is_int_value(b)):
      return a * b
  return None


def intify(e):
  """rewrite comparisons between integer-valued real terms into integer comparisons (z3 5.1 answers `unknown` on
  Not(to_real(a) == to_real(b)) style goals that are immediate over Int)"""
  if not z3.is_app(e) or not z3.is_bool(e):
    return e
  k = e.decl().kind()
  if k in _CMP and e.num_args() == 2 and z3.is_real(e.arg(0)):
    a, b = _as_int(e.arg(0)), _as_int(e.arg(1))
    if a is not None and b is not None:
      return _CMP[k](a, b)
    return e
  if k in (z3.Z3_OP_AND, z3.Z3_OP_OR, z3.Z3_OP_NOT, z3.Z3_OP_IMPLIES, z3.Z3_OP_ITE) or (k == z3.Z3_OP_EQ and z3.is_bool(e.arg(0))):
    args = [intify(e.arg(i)) for i in range(e.num_args())]
    if k == z3.Z3_OP_AND:
      return z3.And(*args)
    if k == z3.Z3_OP_OR:
      return z3.Or(*args)
    if k == z3.Z3_OP_NOT:
      return z3.Not(args[0])
    if k == z3.Z3_OP_IMPLIES:
      return z3.Implies(args[0], args[1])
    if k == z3.Z3_OP_ITE:
      return z3.If(args[0], args[1], args[2])
    return args[0] == args[1]
  return e


def model_value(model, term):
  """python value (Fraction/int/bool) of `term` in `model` (model completion on)"""
  v = model.eval(term, model_completion=True)
  if z3.is_int_value(v):
    return v.as_long()
  if z3.is_rational_value(v):
    return Fraction(v.numerator_as_long(), v.denominator_as_long())
  if z3.is_true(v):
    return True
  if z3.is_false(v):
    return False
  if z3.is_algebraic_value(v):
    return Fraction(v.approx(30).as_fraction())
  raise HarnessError(f"cannot concretise {term} = {v}")


# ---------------------------------------------------------------------------
# proxies

_CUR = None  # the active Explorer


def cur() -> "Explorer":
  if _CUR is None:
    raise HarnessError("symbolic value used outside an exploration")
  return _CUR


class SymBool:
  __slots__ = ("z",)

  def __init__(self, z):
    self.z = z

  def __bool__(self):
    return cur().decide(self.z)

  def __and__(self, o):
    return _mkbool(z3.And(self.z, zbool(o)))

  __rand__ = __and__

  def __or__(self, o):
    return _mkbool(z3.Or(self.z, zbool(o)))

  __ror__ = __or__

  def __invert__(self):
    return _mkbool(z3.Not(self.z))

  def __eq__(self, o):
    return bool(_mkbool(self.z == zbool(o)))

  def __hash__(self):
    return 0

  def __repr__(self):
    return f"SymBool({self.z})"


def _mkbool(r):
  r = z3.simplify(r)
  if z3.is_true(r):
    return True
  if z3.is_false(r):
    return False
  return SymBool(r)


RANK = {'i': 0, 'q': 1, 'f': 2}


def lift(x):
  """(kind, z3 term) of a python or proxy number, or None"""
  if isinstance(x, SymNum):
    return x.kind, x.z
  if isinstance(x, bool):
    return 'i', z3.IntVal(int(x))
  if isinstance(x, int):
    return 'i', z3.IntVal(x)
  if isinstance(x, Fraction):
    return 'q', RV(x)
  if isinstance(x, float):
    if math.isnan(x) or math.isinf(x):
      raise HarnessError("non-finite float mixed with a symbol")
    return 'f', RV(Fraction(x))
  return None


def _real(kind, z):
  return z3.ToReal(z) if kind == 'i' else z


def zreal(x):
  """z3 Real term of any number (python or proxy)"""
  l = lift(x)
  if l is None:
    raise HarnessError(f"not a number: {x!r}")
  return _real(*l)


def zint(x):
  l = lift(x)
  if l is None or l[0] != 'i':
    raise HarnessError(f"not an integer: {x!r}")
  return l[1]


def is_sym(x):
  return isinstance(x, (SymNum, SymBool))


class SymNum:
  """kind 'i': z3 Int standing for `int`; 'q': z3 Real standing for `Fraction` (exact);
  'f': z3 Real standing for a `float` whose rounding is not modelled (relaxed float)."""
  __slots__ = ("kind", "z", "num", "den", "tag")

  def __init__(self, kind, z):
    self.kind = kind
    self.z = z

  def __hash__(self):
    # constant: forces == comparisons (which fork) inside set/dict.  Equal to hash(0).
    return 0

  # -- arithmetic

  def _arith(self, o, op, swap=False):
    l = lift(o)
    if l is None:
      return NotImplemented
    if self.kind == 'f' or l[0] == 'f':
      cur().note_float(op)
    (k1, z1), (k2, z2) = ((l, (self.kind, self.z)) if swap else ((self.kind, self.z), l))
    k = k1 if RANK[k1] >= RANK[k2] else k2
    if op == '/':
      if k == 'i':
        # int / int -> float in Python
        if not swap and isinstance(o, int) and not isinstance(o, bool) and o > 0:
          if cur().strict_floats:
            cur().note_float(op)
          return SymRatio(self.z, o)
        cur().note_float(op)
        k = 'f'
      return SymNum(k, z3.simplify(_real(k1, z1) / _real(k2, z2)))
    if k == 'i':
      if op in ('//', '%'):
        _nonzero(z2)
        # z3 div/mod are Euclidean; Python's are floored.  They agree for positive divisors.
        pos = z3.simplify(z2 > 0)
        if z3.is_true(pos):
          return SymNum('i', z3.simplify(z1 / z2 if op == '//' else z1 % z2))
        # floor division for a negative divisor: floor(a/b) == floor((-a)/(-b))
        q = z3.If(z2 > 0, z1 / z2, (-z1) / (-z2))
        if op == '//':
          return SymNum('i', z3.simplify(q))
        return SymNum('i', z3.simplify(z1 - z2 * q))
      return SymNum('i', z3.simplify({'+': z1 + z2, '-': z1 - z2, '*': z1 * z2}[op]))
    a, b = _real(k1, z1), _real(k2, z2)
    if op in '+-*':
      return SymNum(k, z3.simplify({'+': a + b, '-': a - b, '*': a * b}[op]))
    if op == '//':
      _nonzero(b)
      fl = z3.ToInt(a / b)
      return SymNum('i', z3.simplify(fl)) if k == 'q' else SymNum('f', z3.simplify(z3.ToReal(fl)))
    if op == '%':
      _nonzero(b)
      return SymNum(k, z3.simplify(a - b * z3.ToReal(z3.ToInt(a / b))))
    raise HarnessError(f"unsupported operator {op}")

  def __add__(s, o): return s._arith(o, '+')
  def __radd__(s, o): return s._arith(o, '+', True)
  def __sub__(s, o): return s._arith(o, '-')
  def __rsub__(s, o): return s._arith(o, '-', True)
  def __mul__(s, o): return s._arith(o, '*')
  def __rmul__(s, o): return s._arith(o, '*', True)
  def __truediv__(s, o): return s._arith(o, '/')
  def __rtruediv__(s, o): return s._arith(o, '/', True)
  def __floordiv__(s, o): return s._arith(o, '//')
  def __rfloordiv__(s, o): return s._arith(o, '//', True)
  def __mod__(s, o): return s._arith(o, '%')
  def __rmod__(s, o): return s._arith(o, '%', True)
  def __neg__(s): return SymNum(s.kind, z3.simplify(-s.z))
  def __pos__(s): return s

  def __abs__(s):
    return SymNum(s.kind, z3.simplify(z3.If(s.z >= 0, s.z, -s.z)))

  def __pow__(s, o):
    if isinstance(o, int) and not isinstance(o, bool) and 0 <= o <= 4:
      r = 1
      for _ in range(o):
        r = r * s
      return r
    raise HarnessError("unsupported power")

  # bit operations with constants, for integer kinds
  def __and__(s, m):
    if not (s.kind == 'i' and isinstance(m, int) and not isinstance(m, bool) and m >= 0):
      raise HarnessError("unsupported & operand")
    z = z3.IntVal(0)
    for i in range(m.bit_length()):
      if (m >> i) & 1:
        z = z + ((s.z / (1 << i)) % 2) * (1 << i)
    return SymNum('i', z3.simplify(z))

  __rand__ = __and__

  def __rshift__(s, k):
    if not (s.kind == 'i' and isinstance(k, int) and k >= 0):
      raise HarnessError("unsupported >> operand")
    return SymNum('i', z3.simplify(s.z / (1 << k)))

  def __lshift__(s, k):
    if not (s.kind == 'i' and isinstance(k, int) and k >= 0):
      raise HarnessError("unsupported << operand")
    return SymNum('i', z3.simplify(s.z * (1 << k)))

  def __or__(s, m):
    # only for disjoint-bit constants is `|` representable linearly: a | m == a + m - (a & m)
    if not (s.kind == 'i' and isinstance(m, int) and m >= 0):
      raise HarnessError("unsupported | operand")
    return s + m - (s & m)

  __ror__ = __or__

  def __xor__(s, m):
    if not (s.kind == 'i' and isinstance(m, int) and m >= 0):
      raise HarnessError("unsupported ^ operand")
    return s + m - 2 * (s & m)

  __rxor__ = __xor__

  # -- comparisons

  def _cmp(self, o, f):
    l = lift(o)
    if l is None:
      return NotImplemented
    if self.kind == 'i' and l[0] == 'i':
      return _mkbool(f(self.z, l[1]))
    return _mkbool(f(_real(self.kind, self.z), _real(*l)))

  def __lt__(s, o): return s._cmp(o, lambda a, b: a < b)
  def __le__(s, o): return s._cmp(o, lambda a, b: a <= b)
  def __gt__(s, o): return s._cmp(o, lambda a, b: a > b)
  def __ge__(s, o): return s._cmp(o, lambda a, b: a >= b)

  def __eq__(s, o):
    r = s._cmp(o, lambda a, b: a == b)
    return False if r is NotImplemented else bool(r)

  def __ne__(s, o):
    return not s.__eq__(o)

  def __bool__(s):
    return bool(_mkbool(s.z != 0))

  # -- conversions

  def __floor__(s):
    if s.kind == 'i':
      return s
    ex = cur()
    if getattr(ex, "axiom_floor", False) and not z3.is_rational_value(z3.simplify(s.z)):
      # definitional extension: a fresh integer f with f <= x < f+1 (unique, hence equisatisfiable); much easier for the
      # solver than to_int when several floors/ceilings are compared
      f = z3.Int("floor_%d" % ex.fresh())
      ex.assume(z3.And(z3.ToReal(f) <= s.z, s.z < z3.ToReal(f) + 1))
      return SymNum('i', f)
    return SymNum('i', z3.simplify(z3.ToInt(s.z)))

  def __ceil__(s):
    if s.kind == 'i':
      return s
    ex = cur()
    if getattr(ex, "axiom_floor", False) and not z3.is_rational_value(z3.simplify(s.z)):
      c = z3.Int("ceil_%d" % ex.fresh())
      ex.assume(z3.And(z3.ToReal(c) - 1 < s.z, s.z <= z3.ToReal(c)))
      return SymNum('i', c)
    return SymNum('i', z3.simplify(-z3.ToInt(-s.z)))

  def __trunc__(s):
    if s.kind == 'i':
      return s
    return SymNum('i', z3.simplify(z3.If(s.z >= 0, z3.ToInt(s.z), -z3.ToInt(-s.z))))

  def __round__(s, nd=None):
    if s.kind == 'i':
      return s
    sc = 10 ** (nd or 0)
    x = s.z * sc
    fl = z3.ToInt(x)
    fr = x - z3.ToReal(fl)
    h = RV(Fraction(1, 2))
    r = z3.If(fr < h, fl, z3.If(fr > h, fl + 1, z3.If(fl % 2 == 0, fl, fl + 1)))
    if nd is None:
      return SymNum('i', z3.simplify(r))
    if s.kind == 'f':
      cur().note_float('round')
    return SymNum(s.kind, z3.simplify(z3.ToReal(r) / sc))

  def to_bytes(s, length=1, byteorder="big", signed=False):
    """int.to_bytes for a non-negative symbolic int: a list of symbolic byte values"""
    if s.kind != 'i' or signed:
      raise HarnessError("to_bytes of a non-integer")
    if not cur().is_certain(z3.And(s.z >= 0, s.z < 256 ** length)):
      raise OverflowError("int too big to convert")
    out = [SymNum('i', z3.simplify((s.z / (256 ** i)) % 256)) for i in range(length)]
    return out[::-1] if byteorder == "big" else out

  def __index__(s):
    raise HarnessError("symbolic int reached __index__ (C boundary)")

  def __int__(s):
    raise HarnessError("symbolic number reached int() (C boundary); shadow `int` in the module under test")

  def __float__(s):
    raise HarnessError("symbolic number reached float() (C boundary); shadow `float` in the module under test")

  # Fraction API used by ttconv
  @property
  def numerator(s):
    if s.kind == 'i':
      return s
    raise HarnessError("numerator of a symbolic rational")

  @property
  def denominator(s):
    if s.kind == 'i':
      return 1
    raise HarnessError("denominator of a symbolic rational")

  def __format__(s, spec):
    return cur().new_hole(s, spec)

  def __str__(s):
    return cur().new_hole(s, "")

  def __repr__(s):
    return f"Sym({s.kind}:{s.z})"


numbers.Number.register(SymNum)


def _nonzero(z):
  nz = z3.simplify(z != 0)
  if z3.is_true(nz):
    return
  if not cur().decide(nz):
    raise ZeroDivisionError("symbolic division by zero")


class SymRatio(SymNum):
  """relaxed float whose value is exactly num/den with num a z3 Int term and den a positive python
  int: the result of `int / const`, `float(int)`, `int * const`.  floor/ceil/int of such a value are
  integer cuts (num div den); each cut is recorded as an FP lemma obligation (`Explorer.cuts`) that
  the check discharges separately in QF_BVFP for the value range involved."""
  __slots__ = ()

  def __init__(self, num, den):
    self.kind = 'f'
    self.num = num
    self.den = den
    self.z = z3.ToReal(num) / den if den != 1 else z3.ToReal(num)

  def _arith(self, o, op, swap=False):
    c = None
    if isinstance(o, int) and not isinstance(o, bool):
      c = Fraction(o)
    elif isinstance(o, Fraction):
      c = o
    elif isinstance(o, float) and o == int(o):
      c = Fraction(int(o))
    if c is not None and c > 0:
      if op == '*':
        cur().note_cut('mul', self.den, c)
        return SymRatio(z3.simplify(self.num * c.numerator), self.den * c.denominator)
      if op == '/' and not swap:
        cur().note_cut('div', self.den, c)
        return SymRatio(z3.simplify(self.num * c.denominator), self.den * c.numerator)
    l = None
    if isinstance(o, SymRatio):
      l = (o.num, o.den)
    elif isinstance(o, SymNum) and o.kind == 'i':
      l = (o.z, 1)
    elif isinstance(o, int) and not isinstance(o, bool):
      l = (z3.IntVal(o), 1)
    if l is not None and op in '+-':
      a, b = ((l, (self.num, self.den)) if swap else ((self.num, self.den), l))
      num = a[0] * b[1] + b[0] * a[1] if op == '+' else a[0] * b[1] - b[0] * a[1]
      return SymRatio(z3.simplify(num), a[1] * b[1])
    if l is not None and op == '%' and not swap and l[1] == 1 and isinstance(o, int) and o > 0:
      # (num/den) % o  ==  (num % (den*o)) / den
      return SymRatio(z3.simplify(self.num % (self.den * o)), self.den)
    return SymNum._arith(self, o, op, swap)

  def __floor__(s):
    cur().note_cut('floor', s.den, None)
    return SymNum('i', z3.simplify(s.num / s.den))

  def __ceil__(s):
    cur().note_cut('ceil', s.den, None)
    return SymNum('i', z3.simplify(-((-s.num) / s.den)))

  def __trunc__(s):
    cur().note_cut('trunc', s.den, None)
    return SymNum('i', z3.simplify(z3.If(s.num >= 0, s.num / s.den, -((-s.num) / s.den))))


class SymGridRational(SymNum):
  """exact rational k/d with k a symbolic integer and d a concrete positive integer.  Unlike a general symbolic rational
  its lowest-terms numerator and denominator are representable: gcd(k, d) ranges over the divisors of d, and each case is a
  decision of the explorer (d must be small: the fork is over its divisors)."""

  def __init__(self, k, d):
    self.kind = 'q'
    self.k = k.z if isinstance(k, SymNum) else k
    self.d = int(d)
    self.z = z3.ToReal(self.k) / self.d if self.d != 1 else z3.ToReal(self.k)

  def _gcd(self):
    d = self.d
    divs = [g for g in range(d, 0, -1) if d % g == 0]
    for g in divs[:-1]:
      rest = d // g
      primes = [p for p in range(2, rest + 1) if rest % p == 0 and all(p % q for q in range(2, int(p ** 0.5) + 1))]
      cond = z3.And(self.k % g == 0, *[(self.k / g) % p != 0 for p in primes])
      if cur().decide(cond):
        return g
    return 1

  @property
  def numerator(s):
    g = s._gcd()
    return SymNum('i', z3.simplify(s.k / g))

  @property
  def denominator(s):
    return s.d // s._gcd()


# shadows for builtins that insist on C types (installed in the module under test only)


def sym_int(x=0, *a):
  if isinstance(x, SymNum):
    return x.__trunc__()
  return int(x, *a)


def sym_float(x=0.0):
  if isinstance(x, SymRatio):
    return x
  if isinstance(x, SymNum):
    return SymRatio(x.z, 1) if x.kind == 'i' else SymNum('f', x.z)
  return float(x)


class _FractionMeta(type):
  def __instancecheck__(cls, inst):
    return isinstance(inst, Fraction) or (isinstance(inst, SymNum) and inst.kind == 'q')


class sym_fraction(metaclass=_FractionMeta):
  """stands in for `fractions.Fraction` in a module under test"""

  def __new__(cls, n=0, d=None):
    if isinstance(n, SymNum) or isinstance(d, SymNum):
      nn = zreal(n)
      if d is None:
        return SymNum('q', z3.simplify(nn))
      if isinstance(d, SymNum):
        _nonzero(zreal(d))
      return SymNum('q', z3.simplify(nn / zreal(d)))
    return Fraction(n, d) if d is not None else Fraction(n)


class SymDict(dict):
  """dict looked up with symbolic keys: `.get`/[] compare entry by entry (forks), same semantics"""

  def _find(self, key):
    if not (is_sym(key) or (isinstance(key, tuple) and any(is_sym(k) for k in key))):
      if dict.__contains__(self, key):
        return True, dict.__getitem__(self, key)
      return False, None
    if isinstance(key, SymNum) and key.kind == 'i':
      # a key already determined by the path condition is looked up like a concrete one
      ex = cur()
      ex._check()
      v0 = model_value(ex.solver.model(), key.z)
      if ex.is_certain(key.z == v0):
        if dict.__contains__(self, v0):
          return True, dict.__getitem__(self, v0)
        return False, None
    for k, v in self.items():
      if isinstance(k, tuple):
        if isinstance(key, tuple) and len(key) == len(k) and all(a == b for a, b in zip(key, k)):
          return True, v
      elif key == k:
        return True, v
    return False, None

  def get(self, key, default=None):
    ok, v = self._find(key)
    return v if ok else default

  def __getitem__(self, key):
    ok, v = self._find(key)
    if not ok:
      raise KeyError(key)
    return v

  def __contains__(self, key):
    return self._find(key)[0]


class patched:
  """context manager: temporarily set attributes on modules/classes (harness-level stubs)"""

  def __init__(self, *triples):
    self.triples = triples
    self.saved = []

  def __enter__(self):
    for obj, name, val in self.triples:
      had = name in vars(obj)
      self.saved.append((obj, name, had, vars(obj).get(name)))
      setattr(obj, name, val)
    return self

  def __exit__(self, *exc):
    for obj, name, had, old in reversed(self.saved):
      if had:
        setattr(obj, name, old)
      else:
        try:
          delattr(obj, name)
        except AttributeError:
          pass
    return False


def numeric_shadows(module, names=("int", "float", "Fraction")):
  m = {"int": sym_int, "float": sym_float, "Fraction": sym_fraction}
  return [(module, n, m[n]) for n in names]


# ---------------------------------------------------------------------------
# explorer


class Violation:
  def __init__(self, aid, model, detail, trace_len):
    self.aid = aid
    self.model = model  # {symbol name: "p/q" | int | bool}
    self.detail = detail
    self.trace_len = trace_len

  def as_dict(self):
    return {"assertion": self.aid, "model": self.model, "detail": self.detail}


# ---------------------------------------------------------------------------
# fresh interpreter state per path

_LAZY_STATE = None


def snapshot_lazy_state(prefix="ttconv"):
  """record the module- and class-level containers of the code under test that are empty right after import, and its
  functools caches: they are what a process accumulates while converting (memo tables, registries)"""
  global _LAZY_STATE
  import sys
  import types
  found, seen = [], set()

  def consider(v):
    if id(v) in seen:
      return
    if isinstance(v, (dict, list, set)) and len(v) == 0:
      seen.add(id(v))
      found.append(v)
    elif callable(getattr(v, "cache_clear", None)):
      seen.add(id(v))
      found.append(v)

  for name, mod in list(sys.modules.items()):
    if mod is None or not (name == prefix or name.startswith(prefix + ".")):
      continue
    for v in list(vars(mod).values()):
      consider(v)
      if isinstance(v, type) and getattr(v, "__module__", None) == name:
        for ck, cv in list(vars(v).items()):
          if (ck.startswith("_") and ck.endswith("_")) or ck == "_field_defaults":
            continue   # Enum / namedtuple internals
          consider(cv.__func__ if isinstance(cv, (staticmethod, classmethod)) else cv)
  _LAZY_STATE = found
  return len(found)


def fresh_interpreter_state():
  """every explored path (and every native replay) starts from the state of a freshly started interpreter"""
  for v in _LAZY_STATE or ():
    if isinstance(v, (dict, list, set)):
      if v:
        v.clear()
    else:
      v.cache_clear()


class Explorer:
  """symbolic mode"""
  symbolic = True

  def __init__(self, budget_s=600.0, max_paths=10 ** 7, query_timeout_ms=150000, max_violations=40):
    self.budget_s = budget_s
    self.max_paths = max_paths
    self.query_timeout_ms = query_timeout_ms
    self.max_violations = max_violations
    self.paths = 0
    self.decisions = 0
    self.queries = 0
    self.proved = 0
    self.solver_s = 0.0
    self.violations = []    # first model per distinct (assertion, detail) signature
    self._sigs = {}
    self.witnesses = {}
    self.outcomes = {}      # outcome label -> count
    self.samples = []       # a few path models
    self.cuts = set()
    self.float_ops = set()
    self.exhausted = False
    self.inconclusive = None
    self.path_models = []   # models of completed paths (for native validation)
    self.keep_models = 0
    self.strict_floats = False
    self._reset_solver()

  # -- solver plumbing

  def _reset_solver(self):
    self.solver = z3.Solver()
    self.solver.set("timeout", min(self.query_timeout_ms, 8000))   # incremental attempt; see _check for the fallback
    self.trace = []     # entries: [kind, cond, taken, other]
    self.level = 0      # number of trace entries whose constraint is in the solver
    self.pos = 0        # replay position

  def _check(self, *extra):
    t0 = time.time()
    self.queries += 1
    r = self.solver.check(*extra)
    if r == z3.unknown:
      # the incremental (push/pop) core gave up: retry the same formula with a fresh non-incremental solver, which uses
      # z3's tactic-based arithmetic and is often much stronger on mixed integer/real problems
      # (z3's search is sensitive to term numbering, which depends on what the worker process did before: a query that
      # takes 0.3 s on its own was seen to time out once inside a full run -- so the retry is repeated with other seeds)
      for seed in (0, 11, 23):
        fresh = z3.Solver()
        fresh.set("timeout", self.query_timeout_ms)
        fresh.set("random_seed", seed)
        fresh.add(*self.solver.assertions())
        fresh.add(*extra)
        r = fresh.check()
        if r != z3.unknown:
          break
      self.fallback_queries = getattr(self, "fallback_queries", 0) + 1
      if r == z3.sat and not extra:
        self._fallback_model = fresh.model()
      if r == z3.sat:
        self._last_model = fresh.model()
    else:
      self._last_model = None
    self.solver_s += time.time() - t0
    if r == z3.unknown:
      raise Inconclusive(f"solver unknown: {self.solver.reason_unknown()}")
    return r

  def _push(self, c):
    self.solver.push()
    self.solver.add(c)
    self.level += 1

  def decide(self, cond) -> bool:
    return self._decide_raw(intify(z3.simplify(cond)))

  def _decide_raw(self, cond) -> bool:
    if z3.is_true(cond):
      return True
    if z3.is_false(cond):
      return False
    i = self.pos
    if i < len(self.trace):
      ent = self.trace[i]
      if ent[0] != 'd' or not ent[1].eq(cond):
        raise HarnessError(f"non-deterministic re-execution at decision {i}: {ent[1]} vs {cond}")
      self.pos += 1
      if i >= self.level:
        self._push(cond if ent[2] else z3.Not(cond))
      return ent[2]
    t_ok = self._check(cond) == z3.sat
    f_ok = self._check(z3.Not(cond)) == z3.sat
    if t_ok:
      taken, other = True, f_ok
    elif f_ok:
      taken, other = False, False
    else:
      raise Infeasible()
    self.decisions += 1
    self.trace.append(['d', cond, taken, other])
    self.pos += 1
    self._push(cond if taken else z3.Not(cond))
    return taken

  def assume(self, c):
    return self._assume_raw(intify(z3.simplify(zbool(c))))

  def _assume_raw(self, c):
    if z3.is_true(c):
      return
    i = self.pos
    if i < len(self.trace):
      ent = self.trace[i]
      if ent[0] != 'a' or not ent[1].eq(c):
        raise HarnessError(f"non-deterministic re-execution at assumption {i}")
      self.pos += 1
      if i >= self.level:
        self._push(c)
      return
    self.trace.append(['a', c, True, False])
    self.pos += 1
    self._push(c)
    if self._check() != z3.sat:
      raise Infeasible()

  # -- symbol constructors

  def real(self, name, lo=None, hi=None) -> SymNum:
    v = z3.Real(name)
    cs = []
    if lo is not None:
      cs.append(v >= RV(lo))
    if hi is not None:
      cs.append(v <= RV(hi))
    if cs:
      self.assume(z3.And(*cs))
    return SymNum('q', v)

  def flt(self, name, lo=None, hi=None) -> SymNum:
    """relaxed float"""
    s = self.real(name, lo, hi)
    return SymNum('f', s.z)

  def integer(self, name, lo=None, hi=None) -> SymNum:
    v = z3.Int(name)
    cs = []
    if lo is not None:
      cs.append(v >= lo)
    if hi is not None:
      cs.append(v <= hi)
    if cs:
      self.assume(z3.And(*cs))
    return SymNum('i', v)

  def fresh(self) -> int:
    """per-path counter for fresh definitional symbols (deterministic under re-execution)"""
    self._fresh = getattr(self, "_fresh", 0) + 1
    return self._fresh

  def choice(self, name, n) -> int:
    """symbolic selector in [0,n): returns a concrete int, forking on first use"""
    if n == 1:
      return 0
    cache = self.__dict__.setdefault("_choice_terms", {})
    ent = cache.get((name, n))
    if ent is None:
      v = z3.Int(name)
      ent = cache[(name, n)] = (intify(z3.simplify(z3.And(v >= 0, v < n))),
                                [intify(z3.simplify(v == k)) for k in range(n - 1)])
    self._assume_raw(ent[0])
    for k in range(n - 1):
      if self._decide_raw(ent[1][k]):
        return k
    return n - 1

  def boolean(self, name) -> bool:
    return self.decide(z3.Bool(name))

  def concretize(self, sym, lo, hi) -> int:
    """concrete value of a symbolic integer known to lie in [lo,hi]: solver-decided binary search (forks);
    every feasible value is reached on some path"""
    z = sym.z if isinstance(sym, SymNum) else sym
    while lo < hi:
      mid = (lo + hi) // 2
      if self.decide(z <= mid):
        hi = mid
      else:
        lo = mid + 1
    self.assume(z == lo)
    return lo

  # -- holes

  def new_hole(self, sym, spec):
    key = "⟦%d|%s⟧" % (len(self.holes), spec)
    self.holes[key] = sym
    return key

  def note_cut(self, op, den, c):
    self.cuts.add((op, den, None if c is None else (c.numerator, c.denominator)))

  def note_float(self, op):
    if self.strict_floats:
      raise FloatEncountered(op)
    self.float_ops.add(op)

  # -- assertions

  def _model(self):
    m = getattr(self, "_last_model", None)
    return m if m is not None else self.solver.model()

  def _model_dict(self, model):
    out = {}
    for d in model.decls():
      v = model[d]
      if z3.is_int_value(v):
        out[d.name()] = v.as_long()
      elif z3.is_rational_value(v):
        out[d.name()] = f"{v.numerator_as_long()}/{v.denominator_as_long()}"
      elif z3.is_true(v) or z3.is_false(v):
        out[d.name()] = bool(z3.is_true(v))
      elif z3.is_algebraic_value(v):
        out[d.name()] = str(Fraction(v.approx(30).as_fraction()))
      else:
        out[d.name()] = str(v)
    return out

  def prove(self, cond, aid, detail=None) -> bool:
    """assertion `aid`: one solver query PC ∧ ¬cond.  Returns True when proved on this path."""
    if isinstance(cond, bool):
      c = z3.BoolVal(cond)
    else:
      c = intify(z3.simplify(zbool(cond)))
    self.proved += 1
    if z3.is_true(c):
      return True
    if self._check(z3.Not(c)) == z3.sat:
      self._record(aid, detail)
      return False
    return True

  def _record(self, aid, detail):
    import json as _json
    # keys starting with "_" carry free-form information (observed/expected text) and are not part of the signature
    core = {k: v for k, v in detail.items() if not str(k).startswith("_")} if isinstance(detail, dict) else detail
    sig = (aid, _json.dumps(core, sort_keys=True, default=str))
    n = self._sigs.get(sig, 0)
    self._sigs[sig] = n + 1
    if n == 0:
      self.violations.append(Violation(aid, self._model_dict(self._model()), detail, len(self.trace)))

  def prove_all(self, obligations):
    """obligations: [(cond, aid, detail)].  One query for the conjunction; individual queries only if it fails."""
    cs = [intify(z3.simplify(zbool(c))) if not isinstance(c, bool) else z3.BoolVal(c) for c, _, _ in obligations]
    conj = z3.simplify(z3.And(*cs)) if cs else z3.BoolVal(True)
    self.proved += 1
    if z3.is_true(conj) or self._check(z3.Not(conj)) == z3.unsat:
      return True
    ok = True
    for c, aid, det in obligations:
      ok = self.prove(c, aid, det) and ok
    return ok

  def fail(self, aid, detail=None):
    """unconditional violation on this path (e.g. an undocumented exception was raised)"""
    self._check()
    self._record(aid, detail)

  def witness(self, name, cond=True):
    """reachability witness: must be satisfiable on at least one explored path"""
    if self.witnesses.get(name):
      return
    self.witnesses.setdefault(name, False)
    c = z3.simplify(zbool(cond))
    if z3.is_false(c):
      return
    if z3.is_true(c) or self._check(c) == z3.sat:
      self.witnesses[name] = True

  def outcome(self, label):
    self.outcomes[label] = self.outcomes.get(label, 0) + 1

  def is_possible(self, cond) -> bool:
    c = z3.simplify(zbool(cond))
    if z3.is_true(c):
      return True
    if z3.is_false(c):
      return False
    return self._check(c) == z3.sat

  def is_certain(self, cond) -> bool:
    return not self.is_possible(Not(cond))

  def current_model(self):
    self._check()
    return self._model_dict(self._model())

  # -- driver

  def run(self, fn):
    """re-execute fn(self) until the decision tree is exhausted (or budget/violation cap reached)"""
    global _CUR
    t_end = time.time() + self.budget_s
    prev = _CUR
    _CUR = self
    try:
      while True:
        self.pos = 0
        self.holes = {}
        self._fresh = 0
        fresh_interpreter_state()
        try:
          fn(self)
        except Infeasible:
          self.outcome("infeasible")
        except Inconclusive as e:
          self.inconclusive = str(e)
          return self
        self.paths += 1
        if self.pos != len(self.trace):
          raise HarnessError("re-execution consumed fewer decisions than recorded")
        if len(self.samples) < 3 or len(self.path_models) < self.keep_models:
          try:
            md = self.current_model()
            if len(self.samples) < 3:
              self.samples.append(md)
            if len(self.path_models) < self.keep_models:
              self.path_models.append(md)
          except Inconclusive:
            pass
        # backtrack
        tr = self.trace
        k = len(tr) - 1
        while k >= 0 and not (tr[k][0] == 'd' and tr[k][3]):
          k -= 1
        if k < 0:
          self.exhausted = True
          return self
        if self.paths >= self.max_paths or time.time() > t_end:
          self.inconclusive = "budget exhausted (paths=%d)" % self.paths
          return self
        act = getattr(self, "active", None)
        if len([v for v in self.violations if act is None or v.aid.split(":")[0] in act]) >= self.max_violations:
          self.inconclusive = None  # stopped early on violations: not exhausted, but conclusive (violated)
          return self
        # pop solver to level k, flip decision k
        while self.level > k:
          self.solver.pop()
          self.level -= 1
        del tr[k + 1:]
        tr[k][2] = not tr[k][2]
        tr[k][3] = False
    finally:
      _CUR = prev


class Concrete:
  """concrete mode: same API, values are plain python numbers taken from `model`"""
  symbolic = False
  strict_floats = False

  def __init__(self, model):
    self.model = dict(model)
    self.violations = []
    self.witnesses = {}
    self.outcomes = {}
    self.holes = {}
    self.proved = 0

  def _get(self, name, default):
    v = self.model.get(name, default)
    if isinstance(v, str):
      v = Fraction(v)
    return v

  def real(self, name, lo=None, hi=None):
    v = Fraction(self._get(name, lo if lo is not None else 0))
    if (lo is not None and v < lo) or (hi is not None and v > hi):
      raise Infeasible()
    return v

  def flt(self, name, lo=None, hi=None):
    return float(self.real(name, lo, hi))

  def integer(self, name, lo=None, hi=None):
    v = int(self._get(name, lo if lo is not None else 0))
    if (lo is not None and v < lo) or (hi is not None and v > hi):
      raise Infeasible()
    return v

  def choice(self, name, n):
    v = int(self._get(name, 0))
    if not 0 <= v < n:
      raise Infeasible()
    return v

  def boolean(self, name):
    return bool(self._get(name, False))

  def concretize(self, sym, lo, hi):
    return int(sym)

  def decide(self, cond):
    c = cond if isinstance(cond, bool) else z3.simplify(zbool(cond))
    if c is True or (not isinstance(c, bool) and z3.is_true(c)):
      return True
    if c is False or z3.is_false(c):
      return False
    raise HarnessError(f"condition not ground in concrete mode: {c}")

  def assume(self, c):
    c = z3.simplify(zbool(c))
    if z3.is_false(c):
      raise Infeasible()
    if not z3.is_true(c):
      raise HarnessError(f"assumption not ground in concrete mode: {c}")

  def prove(self, cond, aid, detail=None):
    self.proved += 1
    c = cond if isinstance(cond, bool) else z3.simplify(zbool(cond))
    if c is True or (not isinstance(c, bool) and z3.is_true(c)):
      return True
    if c is False or z3.is_false(c):
      self.violations.append(Violation(aid, self.model, detail, 0))
      return False
    raise HarnessError(f"assertion {aid} not ground in concrete mode: {c}")

  def prove_all(self, obligations):
    ok = True
    for c, aid, det in obligations:
      ok = self.prove(c, aid, det) and ok
    return ok

  def fail(self, aid, detail=None):
    self.violations.append(Violation(aid, self.model, detail, 0))

  def witness(self, name, cond=True):
    c = cond if isinstance(cond, bool) else z3.simplify(zbool(cond))
    if c is True or (not isinstance(c, bool) and z3.is_true(c)):
      self.witnesses[name] = True

  def outcome(self, label):
    self.outcomes[label] = self.outcomes.get(label, 0) + 1

  def is_possible(self, cond):
    c = cond if isinstance(cond, bool) else z3.simplify(zbool(cond))
    return c is True or (not isinstance(c, bool) and z3.is_true(c))

  is_certain = is_possible

  def note_cut(self, *a): pass
  def note_float(self, *a): pass

  def run(self, fn):
    fresh_interpreter_state()
    try:
      fn(self)
    except Infeasible:
      self.outcome("infeasible")
    return self


def call(ex, fn, *args, **kw):
  """run code under test; returns (result, None) or (None, (exc, site)).  Engine control exceptions pass."""
  try:
    return fn(*args, **kw), None
  except Exception as e:  # pylint: disable=broad-except
    tb = traceback.extract_tb(e.__traceback__)
    site = "?"
    for fr in reversed(tb):
      if "/ttconv/" in fr.filename:
        site = "%s:%s" % (fr.filename.split("/ttconv/")[-1], fr.name)
        break
    return None, (e, site)
