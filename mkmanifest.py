#!/usr/bin/env python3
"""Regenerates MANIFEST.json from the table below (kept in one place so that it is always valid)."""
import json

CLAIMED = {
  "C12": {
    "text": "Bounded symbolic model checking of the real time_code.py: from_frames/to_frames/add_frames/"
            "to_temporal_offset/parse/__str__ and ClockTime.from_seconds/parse are executed on symbolic frame counts "
            "and rational seconds; each conjunct of the property is an SMT query answered unsat for every frame count "
            "in [0,24h) at 8 rates and every rational in [0,100h). Exhaustive within the stated bounds by solver "
            "verdict, not by enumeration.",
    "note": "Trusted: z3; the proxy number classes of vf/symrun.py (validated per run by re-executing sampled path "
            "models natively); float steps int/const are exact-rational cuts justified by QF_BVFP lemmas discharged "
            "in the same run; CPython int formatting; float arguments of ClockTime.from_seconds are outside the claim.",
    "technique": "symbolic execution of the real Python functions with z3-backed proxies (LIA/LRA) + QF_BVFP lemmas",
    "design": "DESIGN.md §3 C12",
  },
}

NOT_YET = {
}

def main():
  props = [json.loads(l) for l in open("/verif/properties.jsonl")]
  checks = []
  na = []
  for p in props:
    pid = p["id"]
    if pid in CLAIMED:
      c = CLAIMED[pid]
      checks.append({
        "property_id": pid,
        "quick_cmd": "./check %s --tier quick" % pid,
        "thorough_cmd": "./check %s --tier thorough" % pid,
        "evidence_file": "/verif/evidence/%s.json" % pid,
        "replay_cmd_template": "./check %s --replay {path}" % pid,
        "engine": "symrun",
        "level_claimed": {"category": "model_checking", "text": c["text"], "design_ref": c["design"]},
        "level_note": c["note"],
        "technique": c["technique"],
      })
    else:
      na.append({"property_id": pid, "reason": NOT_YET.get(pid, "check not built yet in this round (solver-based harness planned in DESIGN.md §3); not claimed until its check is conclusive on the unchanged tree")})
  m = {
    "version": 1,
    "setup_cmd": "./setup.sh",
    "hooks": {"guard": "TTCONV_VERIF", "enable": "no source hooks: checks import /repo/src/main/python and patch module attributes from the harness",
              "baseline_off_cmd": "cd /repo && /venv/bin/python -m pytest -ra -q -p no:cacheprovider --timeout=900 --continue-on-collection-errors",
              "source_commits": [], "add_only": True},
    "engines": [
      {"name": "symrun", "path": "vf/symrun.py", "serves_properties": sorted(CLAIMED),
       "kind_free_text": "re-execution symbolic executor: real ttconv code runs on z3-backed numeric proxies; every branch is decided by the solver, every assertion is an SMT query; exact-FP mode (vf/fpmode.py) for float kernels; hole tokens (vf/holes.py) for formatted numbers"},
    ],
    "checks": checks,
    "not_applicable": na,
    "notes": "Exit codes of ./check: 0 holds within bounds, 1 VIOLATION (replayed natively first), 2 inconclusive (solver unknown, budget, encoding error) - never reported as success. known_findings.json lists genuine defects (fixed or known).",
  }
  json.dump(m, open("/verif/MANIFEST.json", "w"), indent=1)
  print("claimed:", sorted(CLAIMED), "not applicable:", len(na))

if __name__ == "__main__":
  main()
