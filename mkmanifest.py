#!/usr/bin/env python3
"""Regenerates MANIFEST.json from the table below (kept in one place so that it is always valid)."""
import json

CLAIMED = {
  "C12": {
    "text": "Bounded symbolic model checking of the real time_code.py: from_frames/to_frames/add_frames/"
            "to_temporal_offset/parse/__str__ and ClockTime.from_seconds/parse are executed on symbolic frame counts "
            "and rational seconds; each conjunct of the property is an SMT query answered unsat for every frame count "
            "in [0,24h) at 8 rates and every rational in [0,100h); ClockTime.from_seconds additionally on the grids k/d, "
            "d in {3,7,15,30,1000,1001}, where the lowest-terms numerator/denominator the code may take are case-split over "
            "gcd(k,d). Exhaustive within the stated bounds by solver verdict, not by enumeration.",
    "note": "Trusted: z3; the proxy number classes of vf/symrun.py (validated per run by re-executing sampled path "
            "models natively); float steps int/const are exact-rational cuts justified by QF_BVFP lemmas discharged "
            "in the same run; CPython int formatting; float arguments of ClockTime.from_seconds are outside the claim.",
    "technique": "symbolic execution of the real Python functions with z3-backed proxies (LIA/LRA) + QF_BVFP lemmas",
    "design": "DESIGN.md §3 C12",
  },
}

CLAIMED.update({
  "C01": {
    "text": "Bounded symbolic model checking of the real ISD.from_model: documents are built through the real model API "
            "from skeletons whose every begin/end/animation time and the query time are z3 Reals and whose region "
            "references / display values are solver-decided selectors; on every execution path the set and order of "
            "(region, leaf) pairs of the returned snapshot is compared with an independent reference (TTML2 time "
            "containment, [associate region], tts:display) by SMT queries answered unsat. All rational times incl. every "
            "boundary coincidence are covered for each skeleton; skeletons are the bound.",
    "note": "Trusted: z3, proxy numbers (validated by native re-execution of sampled path models), the reference R-ISD in "
            "vf/oracles.py. Outside: skeletons not listed, >3 regions, negative offsets, text content other than markers.",
    "technique": "symbolic execution of real Python code with z3 Real proxies, differential against a reference oracle",
    "design": "DESIGN.md §3 C01, §7.5",
  },
  "C02": {
    "text": "Symbolic execution of the real ISD.significant_times / generate_isd_sequence / from_model with rational "
            "time symbols: strict ordering, 'starts no later than first content' (against R-ISD) and completeness "
            "(snapshot(t) == snapshot(greatest significant time <= t), structural equality incl. computed styles) are "
            "decided per path by the solver for all rational times of 12 skeletons with <= 6 time symbols.",
    "note": "Trusted as C01. Completeness compares two snapshots of the implementation; their individual correctness is "
            "C01/C03. One genuine defect is listed in known_findings.json (set on an element with a begin offset).",
    "technique": "symbolic execution with z3 Real proxies (sorted()/set fork on pairwise order), SMT query per assertion",
    "design": "DESIGN.md §3 C02",
  },
  "C13": {
    "text": "Every snapshot produced on every symbolic path of the C01 harness is checked against the documented ISD shape "
            "(ownership, no timing/animation/region refs, content model, exactly the applicable styles, rh/rw lengths, "
            "origin==position, no display none, no empty text/childless span, document parameters, empty regions only "
            "with showBackground always); white-space handling is compared with an XSL-FO based reference over all "
            "texts of the bounded menu for 6 paragraph shapes x default/preserve.",
    "note": "Shape assertions are structural facts of a path (the path condition covers all times of that path). The "
            "white-space harness is a solver-scheduled exhaustive enumeration (no numeric symbol exists there). Known "
            "finding: tts:disparity lengths are never made root-relative.",
    "technique": "symbolic execution (paths from C01 harness) + exhaustive selector enumeration for white space",
    "design": "DESIGN.md §3 C13, §7.5 R-LWSP",
  },
  "C14": {
    "text": "Symbolic execution of ISD.from_model with and without the SignificantTimes cache on 13 documents (0-3 regions, "
            "backgrounds made visible by specified style / set animation with symbolic interval / initial values), all "
            "times rational symbols: rendering equality (modulo empty regions that paint nothing) proved per path; purity: "
            "deep fingerprint of the source document before/after every sequence of <= 2 (quick) / 3 (thorough) calls of "
            "significant_times / from_model cached+uncached / generate_isd_sequence, each call repeated and compared.",
    "note": "Trusted as C01. Writers (SRT/VTT/IMSC) as purity operations are covered by the C06/C05 harnesses when built.",
    "technique": "symbolic execution with z3 Real proxies, structural equality of snapshots per path",
    "design": "DESIGN.md §3 C14",
  },
})

CLAIMED.update({
  "C15": {
    "text": "Inductive-step model checking of the real model API: every forest reachable by building through the API over 7 "
            "five-element typed universes (2 documents, 3 regions; body registered or not, region references on the first two "
            "elements, the last one or two elements possibly detached) is a pre-state (selectors decided by the solver); one of "
            "14 operations with every argument tuple (valid and invalid) follows; the representation invariant (links, "
            "acyclicity, single parent, one document per tree, content model incl. ruby/rtc, region references registered, "
            "only valid values stored) and 'rejected => unchanged' are asserted. Exhaustive within the universes.",
    "note": "No numeric symbol: this harness is an exhaustive, solver-scheduled exploration of a finite space (stated in the "
            "evidence). The invariant is the harness's own reading of the property. Known findings listed in known_findings.json.",
    "technique": "bounded exhaustive exploration of pre-state x operation with the symrun engine (selector variables)",
    "design": "DESIGN.md §3 C15",
  },
  "C17": {
    "text": "All 65 536 words: byte 1 case-split, byte 2 a symbolic integer in [0,255]; the real SccWord.from_bytes, the "
            "six code tables' find(), get_channel, PAC/mid-row attribute decoding and to_text run on it; class, channel, "
            "row/indent/colour/italic/underline and characters are compared per path with a z3 term written from the CEA-608 "
            "bit-pattern description (no ttconv table is read by the reference). Exhaustive by solver verdict. The line "
            "disassembly is checked on all lines of 1-3 words from a 25-word menu (every word rendered, channel labels).",
    "note": "Trusted: z3, proxies, the reference table in vf/props/c17.py (colours compared by family, glyph-like extended "
            "characters by a set of acceptable code points). Disassembly of lines is not covered yet.",
    "technique": "symbolic execution with a z3 Int byte, differential against a bit-pattern reference",
    "design": "DESIGN.md §3 C17, §7.5 R-608-TABLE",
  },
})

CLAIMED.update({
  "C16": {
    "text": "Symbolic execution of the real LCDDocFilter.process on documents whose region geometry (origin, extent, position in "
            "%, px, c, rh with edges), times, animation intervals and safe_area are symbols: the listed post-conditions "
            "(no steps, style whitelist, region == safe area, no two equal regions, references redirected), preservation of "
            "the text timeline against the R-ISD oracle for a symbolic query time, computed colour/background/alignment, "
            "no exception and idempotence (also with the same filter object) are SMT queries on every path; colour and "
            "background colour are configured independently.",
    "note": "Geometry floats (100/rows etc.) are relaxed to reals; skeletons x layout kinds are the bound; em units outside.",
    "technique": "symbolic execution with z3 Real/Int proxies, post-conditions and oracle comparison per path",
    "design": "DESIGN.md §3 C16",
  },
})

CLAIMED.update({
  "C06": {
    "text": "End-to-end symbolic execution of the real srt.writer.from_model and vtt.writer.from_model (ISD sequence, ISD "
            "filters, paragraph/cue formatting) on 13 documents whose begin/end times are symbolic rationals; the produced "
            "text (real, with hole tokens for formatted time fields) is parsed by a strict reference grammar and compared, "
            "per path, with the cues an independent oracle derives: one cue per interval between significant times with "
            "non-blank visible text (R-ISD), begin/end == nearest millisecond (solver query on the hole terms), unbounded "
            "last interval +10 s, payload == visible text in region then document order with line breaks.",
    "note": "ClockTime.from_seconds runs for real and its contract, proved by C12, is added to the path condition; sig-time "
            "list taken from the implementation (C02). Ruby: only base text required. Known findings in known_findings.json.",
    "technique": "symbolic execution with z3 Real proxies + hole-token text, differential against R-ISD/R-CUE oracles",
    "design": "DESIGN.md §3 C06, §7.5 R-CUE",
  },
  "C07": {
    "text": "Same symbolic runs as C06: every output is parsed under strict SubRip/WebVTT grammars (header/STYLE placement, "
            "numbering, begin<end and ordering as solver queries over the symbolic time fields, no empty line or --> in "
            "payloads, escaped & and <, balanced nested tags); per character the enclosing b/i/u/colour/background tags are "
            "compared with an independent style resolver; no tags when formatting is off; align:/line: settings vs the "
            "paragraph alignment and the region geometry; writers must not raise.",
    "note": "Region geometry for line: is concrete (two regions); paragraphs of different alignment merged into one cue carry "
            "no expectation. Known findings: sub-millisecond intervals raise ValueError; nested weight reset; merged-paragraph "
            "alignment lost.",
    "technique": "symbolic execution + strict reference parser over hole-token text, SMT queries on time-field terms",
    "design": "DESIGN.md §3 C07, §7.5 R-CUE",
  },
})

CLAIMED.update({
  "C03": {
    "text": "Symbolic execution of ISD style resolution against an independent resolver (R-STYLE): precedence animation > specified "
            "> inherited > initial > default for all 36 properties on every applicable element kind with symbolic animation "
            "interval and query time; font-size chains and dependent lengths with symbolic values in every unit over 4 cell/pixel "
            "resolutions; region extent/origin/position(edges)/padding per writing mode with symbolic numbers; textDecoration "
            "merging, textEmphasis auto, ruby text half size, direction from writing mode. Equalities are SMT queries (nonlinear "
            "real arithmetic where lengths multiply).",
    "note": "Style arithmetic compared in real arithmetic (float constants taken as exact rationals of the same Python floats); "
            "native replays use 1e-9 relative tolerance. Known finding: textEmphasis auto in vertical writing modes.",
    "technique": "symbolic execution with z3 Real proxies (relaxed floats), differential against R-STYLE",
    "design": "DESIGN.md §3 C03",
  },
  "C10": {
    "text": "SRT reader: (a) the real to_model runs on a cue whose time fields are symbolic integers (hole tokens through the "
            "reader's own regex); begin/end proved equal to the printed rational for all h<=999, m,s<=99, ms<=999, in exact-"
            "rational mode and, if the code rounds through floats, bit-precisely in QF_BVFP; (b) exhaustive selector-driven "
            "exploration of 1-2 cue files (both tag syntaxes, nesting, multi-line, stray end tags, CRLF, blank runs, cue without "
            "text) against a reference scoper; (c) writer output with symbolic times re-read and compared.",
    "note": "(b) has no numeric symbol (solver-scheduled enumeration, stated). Ill-nested tags: only text asserted.",
    "technique": "symbolic execution with hole-token text + QF_BVFP exactness query + bounded exhaustive exploration",
    "design": "DESIGN.md §3 C10",
  },
  "C11": {
    "text": "WebVTT reader: exact timestamps (as C10); _get_or_make_region with symbolic percentages/line numbers for every "
            "combination of vertical/line/position/size/align (inside-root, non-negative extent, writing mode, alignments, "
            "the cue box anchored at the position along the writing direction, region sharing as SMT queries); tokenizer compared with the W3C cue text tokenizer on all strings <= 5 over an "
            "8-character alphabet; cue-text tree for all sequences of <= 4 tokens from a 22-token menu against a reference "
            "scoper; file-level block sequences; writer output re-read.",
    "note": "Number parsers are stubbed by symbolic integers in the region harness (real parsers run in the file harness). "
            "Known findings: position/size geometry leaves the root container; timestamps nested in tags; ruby combinations.",
    "technique": "symbolic execution with z3 Int proxies + bounded exhaustive exploration + QF_BVFP exactness query",
    "design": "DESIGN.md §3 C11",
  },
  "C18": {
    "text": "Union of the robustness assertions carried by every harness: on every explored path no reader raises anything but "
            "the documented input-format errors, and ISD generation, filters and writers do not raise on the documents built. "
            "Claimed only inside the bounded grammars of those harnesses (SRT/VTT line and token sequences, cue text <= 5 chars, "
            "model documents of the ISD/writer/LCD harnesses with all rational times, IMSC documents with malformed styles and "
            "document parameters, style reference cycles, STL block sequences incl. cumulative sets, every SCC word sequence of "
            "length <= 3 over a 21-word menu).",
    "note": "Arbitrary byte strings, the XML parser, SCC/STL/IMSC reader inputs not yet covered by a harness are outside. Known "
            "findings: sub-millisecond cue ValueError, ruby with inactive annotation, WebVTT ruby combinations.",
    "technique": "symbolic execution / bounded exhaustive exploration, exception outcome asserted on every path",
    "design": "DESIGN.md §3 C18",
  },
})

CLAIMED.update({
  "C19": {
    "text": "The real `tt convert` (through the real argparse parser) runs with readers, writers, XML parsing and file I/O replaced "
            "by recording stubs and with every combination of --itype/--otype (8 values, mixed case), file extensions (8), filter "
            "lists (4), inline configuration (3) and configuration file (present/absent) chosen by the solver; the recorded "
            "stage sequence with the parsed configuration objects is compared with a reference composition. Configuration "
            "decoders: lcd.safe_area over every integer in [-1000,1000] (symbolic) and menus of valid/boundary/invalid values "
            "for the other keys: accepted set == documented set.",
    "note": "Determinism across hash seeds, independence from earlier conversions and from log/progress settings are NOT claimed: "
            "they are relations over operating-system processes that cannot be encoded as solver queries over values (stated in "
            "DESIGN.md); byte identity follows from the composition only if the stages are deterministic.",
    "technique": "bounded exhaustive exploration of the dispatcher with stubbed I/O + symbolic integer for the numeric decoder",
    "design": "DESIGN.md §3 C19",
  },
})

CLAIMED.update({
  "C09": {
    "text": "EBU STL reader: (a) real DataFile.process_tti_block on TTI blocks whose TCI/TCO h,m,s,f are symbolic integers, for the 5 "
            "DFC rates x programme start {none, TCP, explicit}: begin/end == label frames / fps - start (either count accepted "
            "at 30000/1001), dropped iff before the start; (b) region from symbolic VP, row count, JC, 1-3 lines, single/double "
            "height: inside the safe area, non-negative, anchored at the VP row, justification, region reuse; (c) byte "
            "classifiers vs the Tech 3264 code table for a symbolic byte; (d) real 1152-byte files with text fields of <= 4 "
            "positions by byte class compared with a reference decoder (printable characters, colours, italics, underline, "
            "line breaks, stop at 8Fh); (e) ISO 6937 diacritic table vs Unicode canonical composition.",
    "note": "struct.unpack is stubbed by a tuple-passing stand-in in (a),(b) (both modes); spaces and boxing/double-height codes are "
            "not compared in (d); cumulative sets and extension blocks are not covered yet.",
    "technique": "symbolic execution with z3 Int/Real proxies + bounded exhaustive exploration of text fields",
    "design": "DESIGN.md §3 C09",
  },
})

CLAIMED.update({
  "C04": {
    "text": "IMSC reader: (a) real to_model on XML trees (par/seq containers, begin/dur/end in all combinations on a chain, offset "
            "containers with implicit duration, empty containers, br) whose time attributes are markers resolved to symbolic "
            "rationals; the result is observed through ISD.from_model at a symbolic time and compared with an independent TTML2/"
            "SMIL time-containment interpreter on the XML tree; (b) parse_time_expression arithmetic for every offset metric, "
            "clock time and clock time with frames with symbolic integer fields through the reader's own regexes (hole tokens), 5 "
            "frame rates, symbolic tick rate; (c) 21 style attributes x well-formed/malformed values on region/p/span: no "
            "exception, logged, neighbours unchanged; (d) style precedence graphs (inline/nested/referential/chained/diamond/"
            "missing/initial, chains of depth 2-3 in every declaration order, reference cycles), xml:space/lang inheritance incl. "
            "empty and overridden xml:lang, anonymous spans for mixed content under par/seq parents; (e) document parameter "
            "attributes on tt (frame/tick rates, multiplier, extent, cell resolution, aspect ratio, active area) with well-formed "
            "and malformed values next to time expressions that depend on them.",
    "note": "parse_time_expression is stubbed in (a) and decided separately in (b); fractional digit fields only with concrete "
            "strings; (c),(d) are selector enumerations over real XML strings. timeContainer on p/span, set and region timing via "
            "XML, ruby containers and frameRateMultiplier parsing are outside.",
    "technique": "symbolic execution with z3 Real/Int proxies + hole-token regex matching, differential against an R-TTML interpreter",
    "design": "DESIGN.md §3 C04",
  },
})

CLAIMED.update({
  "C05": {
    "text": "IMSC write -> read: (a) for 4 writer syntaxes x 7 frame rates the real to_time_format runs on a symbolic rational t, "
            "the printed text (hole tokens) is parsed by the real parse_time_expression through its own regexes; proved: exact "
            "for every representable time (t = k*unit, k symbolic integer), |t'-t| < 1 unit otherwise, order preserved for every "
            "pair t1 <= t2; invalid configurations rejected with ValueError; (b) documents (style value forms incl. specials, all "
            "units, two-length shadow, emphasis, ruby with delimiters, adjacent text nodes; timed skeletons on a symbolic "
            "millisecond grid) are written, serialised, re-parsed and re-read: document parameters, no element or text dropped in "
            "the written XML, no ERROR logged on re-read, equal snapshots at a symbolic time.",
    "note": "ElementTree serialiser/parser trusted; numeric style values come from a concrete menu (they cross %g formatting); "
            "floor/ceil are axiomatised by fresh integers (definitional extension) and comparisons scaled to units.",
    "technique": "symbolic execution with hole-token text through writer and reader, SMT queries on the recovered time terms",
    "design": "DESIGN.md §3 C05",
  },
})

CLAIMED.update({
  "C08": {
    "text": "The real scc.reader.to_model runs on SCC lines whose word sequences are drawn by solver-backed selectors from pop-on, "
            "roll-up and paint-on grammars (rows, PAC colour/italics/underline/indent, tab offsets, standard/special/extended "
            "characters, backspace, mid-row codes, null padding, ENM/EDM, doubled or single control codes, interleaved channel-2 "
            "block, parity set/cleared) and whose line time code is a symbolic frame count n0 (NDF 30 fps and DF 30000/1001); "
            "the document is compared with a reference CEA-608 decoder (two 15x32 memories, cursor, pen, mode, data-channel "
            "latch, doubled-code rule): same number of display periods, same characters on the same rows in row order, pen "
            "colour/italics/underline per character, top row from the region origin, and every begin/end proved (SMT, for every "
            "n0) to lie in the transmission window [n0+i, n0+i+1]/rate of the word that triggers the change; text_align "
            "configurations in the thorough tier.",
    "note": "SmpteTimeCode.parse/add_frames/to_temporal_offset are cut at their contract in symbolic runs (decided by C12); 1-3 "
            "SCC lines per file; roll-up and paint-on are compared run by run in their final state (the reader's line granularity "
            "is reported as known finding F-C08-4); columns inside a row, background attributes, roll-up base rows other than 15 "
            "are outside. Known findings F-C08-1..7 (frame accounting of doubled codes, EDM + 1 frame, composing over flipped "
            "memory, early roll-up/paint-on text, blank roll-up line, paint-on row clearing) are reported, not suppressed classes "
            "beyond their keys.",
    "technique": "bounded exhaustive exploration of protocol grammars by solver selectors + SMT proof of the frame-window claims "
                 "over a symbolic start frame, against a reference CEA-608 decoder",
    "design": "DESIGN.md §8.8",
  },
})

NOT_YET = {
}

def main():
  props = [json.loads(l) for l in open("/verif/properties.jsonl")]
  checks = []
  na = []
  for p in props:
    pid = p["id"]
    if pid in CLAIMED:
      c = CLAIMED[pid]
      checks.append({
        "property_id": pid,
        "quick_cmd": "./check %s --tier quick" % pid,
        "thorough_cmd": "./check %s --tier thorough" % pid,
        "evidence_file": "/verif/evidence/%s.json" % pid,
        "replay_cmd_template": "./check %s --replay {path}" % pid,
        "engine": "symrun",
        "level_claimed": {"category": "model_checking", "text": c["text"], "design_ref": c["design"]},
        "level_note": c["note"],
        "technique": c["technique"],
      })
    else:
      na.append({"property_id": pid, "reason": NOT_YET.get(pid, "see DESIGN.md §4")})
  m = {
    "version": 1,
    "setup_cmd": "./setup.sh",
    "hooks": {"guard": "TTCONV_VERIF", "enable": "no source hooks: checks import /repo/src/main/python and patch module attributes from the harness",
              "baseline_off_cmd": "cd /repo && /venv/bin/python -m pytest -ra -q -p no:cacheprovider --timeout=900 --continue-on-collection-errors",
              "source_commits": [], "add_only": True},
    "engines": [
      {"name": "symrun", "path": "vf/symrun.py", "serves_properties": sorted(CLAIMED),
       "kind_free_text": "re-execution symbolic executor: real ttconv code runs on z3-backed numeric proxies; every branch is decided by the solver, every assertion is an SMT query; exact-FP mode (vf/fpmode.py) for float kernels; hole tokens (vf/holes.py) for formatted numbers"},
    ],
    "checks": checks,
    "not_applicable": na,
    "notes": "Exit codes of ./check: 0 holds within bounds, 1 VIOLATION (replayed natively first), 2 inconclusive (solver unknown, budget, encoding error) - never reported as success. known_findings.json lists genuine defects (fixed or known).",
  }
  json.dump(m, open("/verif/MANIFEST.json", "w"), indent=1)
  print("claimed:", sorted(CLAIMED), "not applicable:", len(na))

if __name__ == "__main__":
  main()
