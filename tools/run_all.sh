#!/bin/sh
# runs every claimed check at the given tier (default quick); prints one line per property
T=${1:-quick}
cd "$(dirname "$0")/.."
for P in $(python3 -c "import json; print(' '.join(c['property_id'] for c in json.load(open('MANIFEST.json'))['checks']))"); do
  S=$(date +%s)
  ./check $P --tier $T > /tmp/runall_${T}_$P.log 2>&1; RC=$?
  echo "$P rc=$RC $(( $(date +%s) - S ))s $(tail -1 /tmp/runall_${T}_$P.log | cut -c1-160)"
done
