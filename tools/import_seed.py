#!/usr/bin/env python3
"""usage: import_seed.py <src dir> <seed id> <caught_by comma list> [note]"""
import json, os, shutil, sys
src, sid, caught = sys.argv[1:4]
note = sys.argv[4] if len(sys.argv) > 4 else ""
dst = os.path.join("/verif/seeded", sid)
os.makedirs(dst, exist_ok=True)
for f in ("patch.diff", "demo.py"):
  shutil.copy(os.path.join(src, f), os.path.join(dst, f))
meta = json.load(open(os.path.join(src, "meta.json")))
meta.update({
  "id": sid,
  "origin": "written by an independent sub-agent that saw only the property text and a scratch worktree",
  "confirmed": "tools/seedtest.sh: demo.py exits 0 on the unchanged /repo and 1 with the patch; the 446 baseline tests still pass with the patch (run_repo_tests.sh)",
  "caught_by": [c for c in caught.split(",") if c],
  "note": note,
})
json.dump(meta, open(os.path.join(dst, "meta.json"), "w"), indent=1)
print("imported", sid)
