#!/bin/sh
# usage: tools/seedtest.sh <property-id> <dir with patch.diff demo.py> [extra property ids to run]
# Applies the seeded change to /repo, confirms tests/demos, runs the check(s), reverts.  Never commits to /repo.
P=$1; D=$2; shift 2
cd /repo || exit 9
git diff --quiet || { echo "repo dirty"; exit 9; }
git apply --check "$D/patch.diff" || { echo "patch does not apply"; exit 9; }
PYTHONPATH=/repo/src/main/python /venv/bin/python "$D/demo.py" >/dev/null 2>&1; DEMO_BEFORE=$?
git apply "$D/patch.diff"
/verif/run_repo_tests.sh >/tmp/seed_tests.$$ 2>&1; TESTS=$?
PYTHONPATH=/repo/src/main/python /venv/bin/python "$D/demo.py" >/dev/null 2>&1; DEMO_AFTER=$?
RES=""
for Q in $P "$@"; do
  (cd /verif && ./check $Q --tier quick > /tmp/seed_check.$$.$Q 2>&1); RC=$?
  RES="$RES $Q=$RC"
  grep -m3 "^violation\|^INCONCLUSIVE" /tmp/seed_check.$$.$Q | cut -c1-300
done
git checkout -- . ; rm -f /tmp/seed_tests.$$ /tmp/seed_check.$$.*
echo "SEED $D demo_before=$DEMO_BEFORE tests=$TESTS demo_after=$DEMO_AFTER checks:$RES"
# restore evidence written while the tree was mutated
(cd /verif && git checkout -- evidence 2>/dev/null; rm -f replays/*)
