#!/bin/sh
# usage: tools/seedconfirm.sh <dir holding <ID>-m<k>/ seed dirs> <out.tsv>
# Phase A (parallel, scratch worktrees): the 446 baseline tests still pass with each patch.
# Phase B (sequential, on /repo as the brief prescribes): demo passes before / fails after, quick check(s) on the patched /repo, revert.
S=$1; OUT=$2
cd /repo || exit 9
git diff --quiet || { echo "repo dirty"; exit 9; }
: > $OUT.tests
phaseA() {
  d=$1; n=$(basename $d); w=/tmp/wtc_$n
  git -C /repo worktree add -q --detach $w HEAD || { echo "$n worktree-failed" >> $OUT.tests; return; }
  if git -C $w apply --check $d/patch.diff 2>/dev/null; then
    git -C $w apply $d/patch.diff
    (cd $w && /venv/bin/python -m pytest -q -p no:cacheprovider --timeout=900 --continue-on-collection-errors --junitxml=/tmp/junit_$n.xml >/dev/null 2>&1)
    /venv/bin/python - /tmp/junit_$n.xml $n >> $OUT.tests <<'PY'
import sys, json, xml.etree.ElementTree as et
base = set(json.load(open('/root/.vp/BASELINE.json'))['stable_pass'])
ok = set()
for tc in et.parse(sys.argv[1]).getroot().iter('testcase'):
  if not any(c.tag in ('failure', 'error', 'skipped') for c in tc):
    ok.add(tc.get('classname') + '::' + tc.get('name'))
print(sys.argv[2], "tests=%d/%d" % (len(base & ok), len(base)))
PY
    rm -f /tmp/junit_$n.xml
  else
    echo "$n patch-does-not-apply" >> $OUT.tests
  fi
  git -C /repo worktree remove --force $w
}
N=0
for d in $S/*-m*; do
  phaseA $d &
  N=$((N+1)); [ $((N % 8)) -eq 0 ] && wait
done
wait
: > $OUT
for d in $S/*-m*; do
  n=$(basename $d); P=${n%%-*}
  grep -q "^$n tests=446/446" $OUT.tests || { echo "$n SKIP $(grep "^$n " $OUT.tests)" >> $OUT; continue; }
  CHECKS=$P
  [ -f $d/checks ] && CHECKS=$(cat $d/checks)
  cd /repo
  PYTHONPATH=/repo/src/main/python /venv/bin/python $d/demo.py >/dev/null 2>&1; DB=$?
  git apply $d/patch.diff
  PYTHONPATH=/repo/src/main/python /venv/bin/python $d/demo.py >/dev/null 2>&1; DA=$?
  RES=""
  for Q in $CHECKS; do
    (cd /verif && ./check $Q --tier quick > /tmp/confirm_check.$n.$Q 2>&1); RC=$?
    RES="$RES $Q=$RC"
  done
  git checkout -- .
  echo "$n demo_before=$DB demo_after=$DA tests=446/446 checks:$RES" >> $OUT
  (cd /verif && git checkout -- evidence 2>/dev/null; find replays -type f -delete 2>/dev/null)
done
cat $OUT
