#!/bin/sh
# usage: tools/seedscreen.sh <property-id> <scratch worktree> <dir with patch.diff demo.py> [extra property ids]
# Pre-screens a seeded change WITHOUT touching /repo (for use while a long run is reading /repo): the patch is applied in the
# scratch worktree and the checks import ttconv from there through PYTHONPATH.  The confirmation of record is tools/seedtest.sh.
P=$1; W=$2; D=$3; shift 3
cd "$W" || exit 9
git checkout -q -- src
git apply --check "$D/patch.diff" || { echo "patch does not apply"; exit 9; }
PYTHONPATH=$W/src/main/python /venv/bin/python "$D/demo.py" >/dev/null 2>&1; DEMO_BEFORE=$?
git apply "$D/patch.diff"
PYTHONPATH=$W/src/main/python /venv/bin/python "$D/demo.py" >/dev/null 2>&1; DEMO_AFTER=$?
RES=""
for Q in $P "$@"; do
  (cd /verif && PYTHONPATH=$W/src/main/python ./check $Q --tier quick > /tmp/screen_check.$$.$Q 2>&1); RC=$?
  RES="$RES $Q=$RC"
  grep -m3 "^violation\|^INCONCLUSIVE" /tmp/screen_check.$$.$Q | cut -c1-300
done
git checkout -q -- src; rm -f /tmp/screen_check.$$.*
echo "SCREEN $D demo_before=$DEMO_BEFORE demo_after=$DEMO_AFTER checks:$RES"
(cd /verif && git checkout -- evidence 2>/dev/null; rm -f replays/*)
