#!/bin/sh
# Runs the repository's pinned suite (the command of /root/.vp/BASELINE.json) and compares with the baseline pass list.
cd /repo && /venv/bin/python -m pytest -ra -q -p no:cacheprovider --timeout=900 --continue-on-collection-errors --junitxml=/tmp/ttconv_junit_$$.xml >/dev/null 2>&1
/venv/bin/python - /tmp/ttconv_junit_$$.xml <<'PY'
import sys, json, xml.etree.ElementTree as et
base = set(json.load(open('/root/.vp/BASELINE.json'))['stable_pass'])
ok = set()
for tc in et.parse(sys.argv[1]).getroot().iter('testcase'):
  if not any(c.tag in ('failure', 'error', 'skipped') for c in tc):
    ok.add(tc.get('classname') + '::' + tc.get('name'))
missing = sorted(base - ok)
print("baseline tests passing: %d/%d" % (len(base & ok), len(base)))
for m in missing: print("NOW FAILING:", m)
sys.exit(1 if missing else 0)
PY
r=$?; rm -f /tmp/ttconv_junit_$$.xml; exit $r
