#!/bin/sh
# Builds the overlay venv the checks run in (offline, from the wheelhouse only).
set -e
cd "$(dirname "$0")"
V=.venv
if [ ! -x "$V/bin/python" ] || ! "$V/bin/python" -c "import z3, ttconv" 2>/dev/null; then
  rm -rf "$V"
  /venv/bin/python -m venv "$V"
  SP=$("$V/bin/python" -c "import sysconfig; print(sysconfig.get_paths()['purelib'])")
  printf "import site; site.addsitedir('/venv/lib/python3.12/site-packages')\n/repo/src/main/python\n" > "$SP/_overlay.pth"
  PIP_NO_INDEX=1 "$V/bin/pip" install -q --no-index --find-links /opt/veriftools/wheels z3-solver crosshair-tool >/dev/null 2>&1 || \
  PIP_NO_INDEX=1 "$V/bin/pip" install -q --no-index --find-links /opt/veriftools/wheels z3-solver
fi
"$V/bin/python" -c "import z3, ttconv; print('verif venv ok: z3', z3.get_version_string())"
